; probe: CheckTransactionSanity duplicate-input loop: invariant kept + post (iff) in the map encoding
(set-logic ALL)
(declare-sort OutPoint 0)
(declare-fun prev (Int) OutPoint)           ; tx.TxIn[i].PreviousOutPoint (read through the heap, frozen here)
(declare-const n Int) (assert (>= n 0))
(declare-const dom (Array OutPoint Bool))   ; existingTxOut domain at loop head
(declare-const i Int)
; invariant: 0<=i<=n, dom = { prev(j) | j<i }, prefix duplicate-free
(assert (and (<= 0 i) (<= i n)))
(assert (forall ((j Int)) (! (=> (and (<= 0 j) (< j i)) (select dom (prev j))) :pattern ((prev j)))))
(assert (forall ((o OutPoint)) (! (=> (select dom o) (exists ((j Int)) (and (<= 0 j) (< j i) (= (prev j) o)))) :pattern ((select dom o)))))
(assert (forall ((j Int) (k Int)) (! (=> (and (<= 0 j) (< j k) (< k i)) (not (= (prev j) (prev k)))) :pattern ((prev j) (prev k)))))
(push)
; body, no-duplicate branch: i<n, not dom[prev i]; dom' = dom[prev i := true]; i' = i+1
(assert (< i n)) (assert (not (select dom (prev i))))
(define-fun dom2 () (Array OutPoint Bool) (store dom (prev i) true))
(assert (not (and
  (forall ((j Int)) (=> (and (<= 0 j) (< j (+ i 1))) (select dom2 (prev j))))
  (forall ((j Int) (k Int)) (=> (and (<= 0 j) (< j k) (< k (+ i 1))) (not (= (prev j) (prev k))))))))
(check-sat)
(pop)
(push)
; body, duplicate branch: returns error => must show "exists j<k<n with equal prevouts" (the iff direction)
(assert (< i n)) (assert (select dom (prev i)))
(assert (not (exists ((j Int) (k Int)) (and (<= 0 j) (< j k) (< k n) (= (prev j) (prev k))))))
(check-sat)
(pop)
(push)
; exit: i == n => all distinct
(assert (= i n))
(assert (not (forall ((j Int) (k Int)) (=> (and (<= 0 j) (< j k) (< k n)) (not (= (prev j) (prev k)))))))
(check-sat)
(pop)
