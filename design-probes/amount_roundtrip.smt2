; probe: decompress(compress(x)) == x, stated over the loop-exit state (a,e) of compressTxOutAmount
; with a*10^e == x, and the decompress loop summarised by its invariant n_final = v*10^e.
(set-logic ALL)
(define-fun pow10 ((e Int)) Int
  (ite (= e 0) 1 (ite (= e 1) 10 (ite (= e 2) 100 (ite (= e 3) 1000 (ite (= e 4) 10000
  (ite (= e 5) 100000 (ite (= e 6) 1000000 (ite (= e 7) 10000000 (ite (= e 8) 100000000 1000000000))))))))))
(define-fun W () Int 18446744073709551616)
(declare-const x Int) (declare-const a Int) (declare-const e Int)
(assert (and (< 0 x) (<= x 2049638230412172401)))
(assert (and (<= 0 e) (<= e 9) (< 0 a) (= (* a (pow10 e)) x)))
; loop exit condition: not (a%10==0 && e<9)
(assert (or (not (= (mod a 10) 0)) (>= e 9)))
; compress result (with wrap)
(define-fun c () Int
  (ite (< e 9)
       (mod (+ 1 (* 10 (- (+ (* 9 (div a 10)) (mod a 10)) 1)) e) W)
       (mod (+ 10 (* 10 (- a 1))) W)))
; decompress
(define-fun y1 () Int (- c 1))
(define-fun e2 () Int (mod y1 10))
(define-fun q () Int (div y1 10))
(define-fun v () Int (ite (< e2 9) (mod (+ (* (div q 9) 10) (+ (mod q 9) 1)) W) (mod (+ q 1) W)))
(assert (not (and (not (= c 0)) (= e2 e) (= (mod (* v (pow10 e2)) W) x))))
(check-sat)
