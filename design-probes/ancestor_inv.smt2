; probe: blockNode.Ancestor loop invariant preservation in the component-heap encoding
(set-logic ALL)
(declare-sort Ref 0)
(declare-const nil Ref)
(declare-fun parent (Ref) Ref)
(declare-fun ancestor (Ref) Ref)
(declare-fun height (Ref) Int)
; getAncestorHeight as an uninterpreted function with its proved contract
(declare-fun gah (Int) Int)
(assert (forall ((h Int)) (! (=> (>= h 1) (and (<= 0 (gah h)) (< (gah h) h))) :pattern ((gah h)))))
; ghost: naive parent walk
(declare-fun anc (Ref Int) Ref)
(assert (forall ((h Int)) (! (= (anc nil h) nil) :pattern ((anc nil h)))))
(assert (forall ((n Ref) (h Int)) (! (=> (not (= n nil))
   (= (anc n h) (ite (= (height n) h) n (ite (< (height n) h) nil (anc (parent n) h))))) :pattern ((anc n h)))))
; index well-formedness
(assert (forall ((n Ref)) (! (=> (and (not (= n nil)) (not (= (parent n) nil))) (= (height (parent n)) (- (height n) 1))) :pattern ((parent n)))))
(assert (forall ((n Ref)) (! (=> (and (not (= n nil)) (= (parent n) nil)) (= (height n) 0)) :pattern ((parent n)))))
(assert (forall ((n Ref)) (! (=> (and (not (= n nil)) (not (= (ancestor n) nil))) (= (ancestor n) (anc n (gah (height n))))) :pattern ((ancestor n)))))
(assert (forall ((n Ref)) (! (=> (not (= n nil)) (>= (height n) 0)) :pattern ((height n)))))
; lemma (proved separately by induction): walking composes
(assert (forall ((n Ref) (h1 Int) (h Int)) (! (=> (and (not (= n nil)) (<= h h1) (<= h1 (height n))) (= (anc (anc n h1) h) (anc n h))) :pattern ((anc (anc n h1) h)))))
(declare-const node Ref) (declare-const n Ref) (declare-const h Int)
(assert (not (= node nil))) (assert (and (<= 0 h) (<= h (height node))))
; invariant
(assert (= (anc n h) (anc node h)))
(assert (=> (not (= n nil)) (>= (height n) h)))
; guard
(assert (and (not (= n nil)) (not (= (height n) h))))
(push)
; branch: ancestor != nil && gah(height n) >= h  -> n' = ancestor n
(assert (and (not (= (ancestor n) nil)) (>= (gah (height n)) h)))
(assert (not (and (= (anc (ancestor n) h) (anc node h)) (=> (not (= (ancestor n) nil)) (>= (height (ancestor n)) h)))))
(check-sat)
(pop)
(push)
; branch: else -> n' = parent n
(assert (not (and (not (= (ancestor n) nil)) (>= (gah (height n)) h))))
(assert (not (and (= (anc (parent n) h) (anc node h)) (=> (not (= (parent n) nil)) (>= (height (parent n)) h)))))
(check-sat)
(pop)
(push)
; exit: n == nil or height n == h  => result n == anc(node,h)
(pop)
