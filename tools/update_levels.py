#!/usr/bin/env python3
# Appends (or refreshes) to every check's level_claimed.text a generated sentence listing what is under contract for
# the property now, so that the claim in MANIFEST.json follows the contract files.
import json,re
M='/verif/MANIFEST.json'
m=json.load(open(M)); props={p['id']:p for p in json.load(open('/verif/props.json'))}
MARK=' Coverage as of the last pass: '
for c in m['checks']:
    p=props.get(c['property_id'])
    if not p: continue
    t=c['level_claimed']['text']
    if MARK in t: t=t[:t.index(MARK)]
    fns=[f.split('.',1)[1] if '.' in f else f for f in p['functions']]
    add=(f"{MARK}{len(p['functions'])} functions and {len(p['lemmas'])} lemmas are under machine-checked contract for this property "
         f"({', '.join(fns)}); the clauses added after the first pass - data-structure and functional contracts, call-site, "
         f"return and back-edge clauses of the partially checked functions, ghost-state ordering clauses - are described per function in DESIGN.md 10.5-10.8, "
         f"and the obligations discharged on each run, the assumed (trusted) contracts and the abstracted calls are listed in the evidence file.")
    c['level_claimed']['text']=t+add
json.dump(m,open(M,'w'),indent=1)
print('updated')
