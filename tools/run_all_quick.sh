#!/bin/bash
# Runs every claimed property's quick check in sequence; prints one line per property.
cd /verif
for p in $(python3 -c "import json;print(' '.join(c['property_id'] for c in json.load(open('MANIFEST.json'))['checks']))"); do
  s=$(date +%s); ./check $p quick > /tmp/q_$p.log 2>&1; rc=$?; e=$(date +%s)
  echo "$p rc=$rc $((e-s))s $(tail -1 /tmp/q_$p.log | cut -c1-150)"
done
