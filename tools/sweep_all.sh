#!/bin/bash
# Exploratory zero-annotation safety sweep over the byte-facing packages. Results in .cache/sweep/*.log
cd /verif; mkdir -p .cache/sweep
run() { name=$1; shift; nice -n 19 ./bin/govc sweep "$@" > .cache/sweep/$name.log 2>&1; echo "$name done: $(grep -c '^OK' .cache/sweep/$name.log) ok, $(grep -c '^FAIL' .cache/sweep/$name.log) fail, $(grep -c '^SKIP' .cache/sweep/$name.log) skip"; }
run wire -mod /repo/wire -pkg . -allocbound 1073741824
run chainhash -mod /repo/chaincfg/chainhash -pkg .
run base58 -mod /repo/address -pkg ./base58
run bech32 -mod /repo/address -pkg ./bech32
run address -mod /repo/address -pkg .
run btcutil -mod /repo/btcutil -pkg .
run gcs -mod /repo/btcutil -pkg ./gcs
run bloom -mod /repo/btcutil -pkg ./bloom
run hdkeychain -mod /repo/btcutil -pkg ./hdkeychain
run btcec -mod /repo/btcec -pkg .
run ecdsa -mod /repo/btcec -pkg ./ecdsa
run schnorr -mod /repo/btcec -pkg ./schnorr
run psbt -mod /repo/btcutil/psbt -pkg .
run blockchain -pkg ./blockchain
run mempool -pkg ./mempool
run ffldb -pkg ./database/ffldb
