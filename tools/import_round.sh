#!/bin/bash
# import_round.sh <srcdir> <suffix> <round> <id...>: imports <srcdir>/<id> into /verif/seeded/<id>-<suffix> after confirming it in a scratch worktree.
SRC=$1; suf=$2; RND=$3; shift 3
for i in "$@"; do
  src=$SRC/$i; dst=/verif/seeded/$i-$suf
  [ -f $src/patch.diff ] || { echo "$i: no patch"; continue; }
  mod=$(grep -m1 '^module:' $src/notes.md | sed 's/module:[ ]*//' | tr -d '`' ); pkg=$(grep -m1 '^package:' $src/notes.md | sed 's/package:[ ]*//' | tr -d '`')
  # package is relative to module
  res=$(/verif/tools/confirm_seed.sh $src "$mod" "$pkg" 2>&1 | tail -3)
  echo "$i [$mod $pkg]: $res"
  if echo "$res" | grep -q CONFIRMED; then
    mkdir -p $dst; cp $src/patch.diff $src/zz_seed_demo_test.go $src/notes.md $dst/
    python3 - "$i" "$suf" "$mod" "$pkg" "$SRC" "$RND" <<'PY'
import json,sys,re
i,suf,mod,pkg=sys.argv[1:5]
notes=open(sys.argv[5]+'/'+i+'/notes.md').read()
body=notes.split('\n',2)[2].strip() if notes.count('\n')>=2 else notes
m={"id":f"{i}-{suf}","property":i,"change":body[:600],"needs_to_manifest":"see notes.md","module":mod,"package":pkg,
 "author":"independent sub-agent given only the property text and a scratch worktree (round "+sys.argv[6]+")",
 "confirmed":"tools/confirm_seed.sh in a scratch worktree: builds, existing package tests pass with the change, demo test fails with the change and passes without"}
json.dump(m,open(f'/verif/seeded/{i}-{suf}/meta.json','w'),indent=1)
PY
  fi
done
