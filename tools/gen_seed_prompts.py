#!/usr/bin/env python3
# gen_seed_prompts.py <round-dir> <worktree-prefix>: writes one prompt per claimed property for an independent
# sub-agent (property text + orientation + list of changes already made by others; nothing about /verif's checks).
import json,sys,os,glob
rd,wtp=sys.argv[1],sys.argv[2]
os.makedirs(rd+'/prompts',exist_ok=True)
man=json.load(open('/verif/MANIFEST.json'))
claimed={c['property_id'] for c in man['checks']}
for l in open('/verif/properties.jsonl'):
    p=json.loads(l); i=p['id']
    if i not in claimed: continue
    prior=[]
    for m in sorted(glob.glob(f'/verif/seeded/{i}-*/meta.json')):
        ch=json.load(open(m)).get('change','').replace('\n',' ')
        prior.append('  - '+ch[:230])
    mech='\n'.join(f"  - {m['name']} — {m['where']}" for m in p['anchors']['mechanism'])
    txt=f"""You are helping test a verification effort for btcd (a full Bitcoin node in Go). Your job: produce ONE realistic code change to btcd that BREAKS the semantic property below, while the code still compiles and the package's EXISTING tests still pass. Then demonstrate it with a new test that fails with your change and passes without it.

Work ONLY in the scratch git worktree {wtp}-{i} (a checkout of the repository). Do not touch /repo or /verif, do not read anything under /verif. Write your results to {rd}/{i}/ .

## The property ({i}): {p['title']}

{p['statement']}

Quantified over: {p['quantifier']['text']}

Where the mechanism lives (for orientation):
{mech}

## What kind of change

- A change a tired maintainer could plausibly make: an off-by-one, a wrong comparison, a reordered step, a dropped or mis-gated check, an 'optimisation' or refactoring that is subtly wrong, a wrong variable/field used, an integer width/sign slip, two cooperating sites that each look fine alone. Keep it small (a few lines, at most ~30).
- It must need something SPECIFIC to manifest — an unusual input, a boundary value, a multi-step sequence of operations, a particular history/fork shape, a crash/fault at a particular point — NOT something that ordinary use or the existing tests expose at once.
- It must genuinely violate the property as stated (not merely change an error message or performance).
- Choose a site in the functions listed above or in helpers they call. Prefer a function or clause of the property that the earlier changes below did NOT touch; do not repeat them or trivially vary them:
{chr(10).join(prior) if prior else '  (none yet)'}

## Repository facts you need

- The repository is several Go modules: root (blockchain, mempool, mining, peer, database, netsync, ...), and sub-modules wire/, txscript/, btcec/, btcutil/, btcutil/psbt/, chaincfg/, chaincfg/chainhash/, address/, v2transport/. There are NO replace directives: the root module compiles against module-cache copies of the sub-modules, so an edit inside e.g. wire/ is only seen by tests run inside that sub-module (cd wire && go test ./...), not by the root module's tests. Make your change and your demonstration test live in the SAME module.
- No network. Always run go with: export PATH=/root/go/pkg/mod/golang.org/toolchain@v0.0.1-go1.25.0.linux-amd64/bin:$PATH GOTOOLCHAIN=local GOFLAGS=-mod=mod GOPROXY=off GOSUMDB=off.
- Run the existing tests of the package you changed (cd <module>/<pkg> && go test -vet=off -count=1 .) and confirm they still pass WITH your change. (In blockchain, the tests TestFlushOnPrune / TestInitConsistentState fail or are slow in this checkout with and without any change; skip them with -skip.) If an existing test fails, pick a different change.

## Deliverables in {rd}/{i}/

1. patch.diff — `git diff` of your change to non-test source files only (created from inside the worktree, paths relative to the repo root, so `git apply patch.diff` works at the repo root).
2. zz_seed_demo_test.go — ONE in-package Go test file (same package as the changed code, so it may use unexported identifiers) whose test function names start with TestSeed. It must FAIL with the change applied and PASS on the unchanged code. It should check the property against an independent expectation (a hand-computed value, a naive reference implementation, or the specification), not just compare with a recorded output.
3. notes.md — first lines exactly:
   module: <module dir relative to repo root, '.' for root>
   package: <package dir relative to the module dir, e.g. ./blockchain or .>
   then: one paragraph on what the change is, which clause of the property it breaks, and what it needs in order to manifest.

Before finishing, verify yourself: (a) go build ./... in the module passes with the change, (b) existing package tests pass with the change, (c) your TestSeed test fails with the change, (d) `git stash` / `git apply -R` the change and the TestSeed test passes. Leave the worktree with your change applied and the test file in place. Report briefly what you did (and mention anything odd you noticed about the unchanged code while probing)."""
    open(f'{rd}/prompts/{i}.txt','w').write(txt)
    os.makedirs(f'{rd}/{i}',exist_ok=True)
print('ok')
