#!/usr/bin/env python3
# Regenerates the functions/lemmas lists of props.json from the prop tags in /repo/**/verif_contracts.go
# (targets, residue and bounded_standins are kept). Run by hand after adding contracts.
import json, re, os, subprocess
repo='/repo'
mods={}
for root,dirs,files in os.walk(repo):
    dirs[:] = [d for d in dirs if d not in ('.git','testdata')]
    if 'go.mod' in files:
        for l in open(os.path.join(root,'go.mod')):
            if l.startswith('module '):
                mods[l.split()[1]]=root
def shortpkg(d):
    # import path -> short name as govc prints it
    best=max((m for m,r in mods.items() if d==r or d.startswith(r+'/')), key=lambda m: len(mods[m]))
    ip=best+d[len(mods[best]):]
    p=ip.replace('github.com/btcsuite/btcd/','').replace('/v2','')
    return p, mods[best]
props=json.load(open('/verif/props.json'))
byid={p['id']:p for p in props}
found={}
for root,dirs,files in os.walk(repo):
    dirs[:] = [d for d in dirs if d not in ('.git','testdata')]
    if 'verif_contracts.go' not in files: continue
    sp,modroot=shortpkg(root)
    cur=None; kind=None
    for l in open(os.path.join(root,'verif_contracts.go')):
        l=l.strip()
        if not l.startswith('//@'): continue
        t=l[3:].strip()
        m=re.match(r'(func|lemma|iface|axiom)\s+(.*)',t)
        if m:
            kind=m.group(1); name=m.group(2)
            if kind=='lemma': name=name.split('(')[0].strip()
            else: name=name.replace('(','').replace(')','').replace('*','').replace(' @','@').strip()
            cur=name; continue
        m=re.match(r'prop\s+(.*)',t)
        if m and cur and kind in ('func','lemma'):
            for pid in re.split(r'[ ,]+',m.group(1).strip()):
                e=found.setdefault(pid,{'functions':[],'lemmas':[],'targets':set()})
                if kind=='func': e['functions'].append(sp+'.'+cur)
                else: e['lemmas'].append(sp+'.lemma.'+cur)
                rel=os.path.relpath(modroot,repo); pk='./'+os.path.relpath(root,modroot) if root!=modroot else '.'
                e['targets'].add((rel,pk))
for pid,e in sorted(found.items()):
    p=byid.get(pid)
    if not p:
        p={'id':pid,'targets':[],'functions':[],'lemmas':[],'residue':[],'bounded_standins':[]}; props.append(p); byid[pid]=p
    p['functions']=e['functions']; p['lemmas']=e['lemmas']
    tg={}
    for rel,pk in sorted(e['targets']): tg.setdefault(rel,[]).append(pk)
    p['targets']=[{'module':k,'packages':v} for k,v in sorted(tg.items())]
props.sort(key=lambda p:p['id'])
json.dump(props,open('/verif/props.json','w'),indent=1)
for p in props: print(p['id'],len(p['functions']),'functions',len(p['lemmas']),'lemmas',p['targets'])
