#!/bin/bash
# v.sh <module-dir|.> <pkg> <fn,fn,...>: verify and print everything that is not a discharged obligation, plus a count.
cd /verif
mod=$1; pkg=$2; fns=$3
if [ "$mod" = "." ]; then out=$(./bin/govc verify -pkg $pkg -fn "$fns" 2>&1); else out=$(./bin/govc verify -mod /repo/$mod -pkg $pkg -fn "$fns" 2>&1); fi
echo "$out" | grep -E "load error|^panic|FAIL|ERROR|outside subset" -A1 | cut -c1-${W:-260} | head -${N:-24}
echo "ok=$(echo "$out" | grep -c '^ok ') fail=$(echo "$out" | grep -c '^FAIL') err=$(echo "$out" | grep -cE 'load error|^panic|^ERROR')"
