#!/bin/bash
# confirm_seed.sh <seed-dir> <module-dir-rel> <pkg-rel>   e.g. /tmp/seeds/C06-a txscript .
# Confirms in a scratch worktree: builds, existing package tests pass with the change,
# demo fails with the change and passes without. Prints CONFIRMED or REJECTED.
set -u
seed="$1"; mod="$2"; pkg="$3"
export GOFLAGS=-mod=mod GOPROXY=off
wt=/tmp/wt/confirm-$$
git -C /repo worktree add -q --detach "$wt" HEAD || exit 2
cleanup() { git -C /repo worktree remove --force "$wt" >/dev/null 2>&1; }
trap cleanup EXIT
cd "$wt" || exit 2
if ! git apply "$seed/patch.diff"; then echo "REJECTED: patch does not apply"; exit 1; fi
pdir="$wt/$mod/$pkg"
( cd "$wt/$mod" && go build ./... ) || { echo "REJECTED: build fails"; exit 1; }
( cd "$pdir" && go test -vet=off -count=1 -skip 'TestFlushOnPrune|TestInitConsistentState' . ) > /tmp/confirm-$$-pkg.log 2>&1 || { echo "REJECTED: existing tests fail with the change"; tail -20 /tmp/confirm-$$-pkg.log; exit 1; }
cp "$seed/zz_seed_demo_test.go" "$pdir/"
if ( cd "$pdir" && go test -vet=off -count=1 -run 'TestSeed' . ) > /tmp/confirm-$$-demo1.log 2>&1; then echo "REJECTED: demo passes with the change"; exit 1; fi
git apply -R "$seed/patch.diff"
if ! ( cd "$pdir" && go test -vet=off -count=1 -run 'TestSeed' . ) > /tmp/confirm-$$-demo2.log 2>&1; then echo "REJECTED: demo fails without the change"; tail -20 /tmp/confirm-$$-demo2.log; exit 1; fi
echo "CONFIRMED $seed"
rm -f /tmp/confirm-$$-*.log
