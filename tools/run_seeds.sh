#!/bin/bash
# Applies every seeded change to /repo in turn, runs the quick check of its property, and undoes it.
# Usage: tools/run_seeds.sh [seed-id ...]   -> writes seeded/RESULTS.txt and updates meta.json detected_by
cd /verif
if ! git -C /repo diff --quiet; then echo "refusing: /repo has uncommitted changes"; exit 2; fi
seeds=("$@"); [ ${#seeds[@]} -eq 0 ] && seeds=($(ls seeded | grep -v RESULTS))
for s in "${seeds[@]}"; do
  d=/verif/seeded/$s; [ -f $d/patch.diff ] || continue
  prop=$(python3 -c "import json;print(json.load(open('$d/meta.json'))['property'])")
  if ! python3 -c "import json,sys;sys.exit(0 if any(c['property_id']=='$prop' for c in json.load(open('MANIFEST.json'))['checks']) else 1)"; then echo "$s $prop not-claimed" | tee -a seeded/RESULTS.tmp; python3 - "$d" <<'PY'
import json,sys
p=sys.argv[1]+'/meta.json';m=json.load(open(p));m['detected_by']='property not claimed (not_applicable)';json.dump(m,open(p,'w'),indent=1)
PY
  continue; fi
  git -C /repo apply $d/patch.diff || { echo "$s apply-failed" | tee -a seeded/RESULTS.tmp; continue; }
  out=$(./check $prop quick 2>&1); rc=$?
  git -C /repo checkout -- .
  git -C /repo clean -fdq -- . >/dev/null 2>&1
  viol=$(echo "$out" | grep -E "^FAIL|^VIOLATION" | head -6)
  names=$(echo "$out" | grep -E "^  obligation " | awk '{print $2}' | tr -d ':' | sort -u | tr '\n' ' ')
  echo "$s $prop rc=$rc ${names}" | tee -a seeded/RESULTS.tmp
  python3 - "$d" "$rc" "$names" <<'PY'
import json,sys
p=sys.argv[1]+'/meta.json';m=json.load(open(p))
m['detected_by']= ('quick check exits 1; failed obligations: '+sys.argv[3].strip()) if sys.argv[2]=='1' else ('NOT detected (quick check exit '+sys.argv[2]+')')
json.dump(m,open(p,'w'),indent=1)
PY
done
mv seeded/RESULTS.tmp seeded/RESULTS.txt
