#!/bin/bash
# Applies every seeded change in turn to a scratch worktree of /repo (never to /repo itself), runs the
# quick check of its property against that worktree, and records what was detected.
# Usage: tools/run_seeds.sh [seed-id ...]   -> writes seeded/RESULTS.txt (all seeds) and updates meta.json detected_by
cd /verif
export GOFLAGS=-mod=mod GOPROXY=off GOSUMDB=off GOTOOLCHAIN=local PATH=/opt/veriftools/go1.26.8/bin:$PATH
[ -x bin/govc ] || ./build.sh
wt=/tmp/wt/seedrun-$$; sv=/tmp/seedrun-verif-$$
git -C /repo worktree add -q --detach $wt HEAD || exit 2
mkdir -p $sv; cp props.json known_findings.json $sv/; cp -r findings $sv/
trap 'git -C /repo worktree remove --force $wt >/dev/null 2>&1; rm -rf $sv' EXIT
seeds=("$@"); [ ${#seeds[@]} -eq 0 ] && seeds=($(ls seeded | grep -v RESULTS))
for s in "${seeds[@]}"; do
  d=/verif/seeded/$s; [ -f $d/patch.diff ] || continue
  prop=$(python3 -c "import json;print(json.load(open('$d/meta.json'))['property'])")
  if ! python3 -c "import json,sys;sys.exit(0 if any(c['property_id']=='$prop' for c in json.load(open('MANIFEST.json'))['checks']) else 1)"; then
    line="$s $prop not-claimed"; det='property not claimed (not_applicable)'
  elif ! git -C $wt apply $d/patch.diff; then
    line="$s $prop apply-failed"; det='patch does not apply to the current tree'
  else
    out=$(./bin/govc check -repo $wt -verif $sv -prop $prop -tier quick 2>&1); rc=$?
    git -C $wt checkout -q -- . ; git -C $wt clean -fdq
    names=$(echo "$out" | grep -E "^  obligation " | awk '{print $2}' | tr -d ':' | sort -u | tr '\n' ' ')
    line="$s $prop rc=$rc ${names}"
    if [ "$rc" = "1" ]; then det="quick check exits 1; failed obligations: ${names}"; else det="NOT detected (quick check exit $rc)"; fi
  fi
  echo "$line"
  python3 - "$d" "$det" <<'PY'
import json,sys
p=sys.argv[1]+'/meta.json';m=json.load(open(p));m['detected_by']=sys.argv[2].strip();json.dump(m,open(p,'w'),indent=1)
PY
  # keep one line per seed in RESULTS.txt
  touch seeded/RESULTS.txt; grep -v "^$s " seeded/RESULTS.txt > seeded/RESULTS.tmp; echo "$line" >> seeded/RESULTS.tmp; sort seeded/RESULTS.tmp > seeded/RESULTS.txt; rm -f seeded/RESULTS.tmp
done
