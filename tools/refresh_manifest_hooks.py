#!/usr/bin/env python3
# Refreshes MANIFEST.hooks.source_commits from /repo's history (commits whose subject starts with "verif:").
import json,subprocess
m=json.load(open('/verif/MANIFEST.json'))
out=subprocess.run(['git','-C','/repo','log','--reverse','--format=%h %s'],capture_output=True,text=True).stdout
m['hooks']['source_commits']=[l.split()[0] for l in out.splitlines() if l.split(' ',1)[1].startswith('verif:')]
json.dump(m,open('/verif/MANIFEST.json','w'),indent=1)
print(len(m['hooks']['source_commits']),'hook commits')
