package main

// time.Time as an opaque value: Unix() and Nanosecond() are uninterpreted functions of the
// struct's (wall, ext) fields; time.Unix(sec, 0) builds a value whose Unix() is sec. Comparisons
// (After/Before/Equal) compare (unix, nsec) lexicographically — the documented meaning for
// times without monotonic readings, which is what header timestamps are. Assumed (stdlib).

import (
	"go/token"
	"go/types"

	"golang.org/x/tools/go/ssa"
)

func (x *Exec) timeFn(name string, t Value) *Term {
	if t.K != KStruct || len(t.Fields) < 2 {
		unsupported("time.Time value is not a struct")
	}
	q := quoteSym("time." + name)
	if _, ok := x.vc.declared[q]; !ok {
		x.vc.declared[q] = SInt
		x.vc.items = append(x.vc.items, Item{Kind: "declfun", Name: q, Raw: "(declare-fun " + q + " (" + t.Fields[0].X.S + " " + t.Fields[1].X.S + ") Int)"})
	}
	return App(q, SInt, t.Fields[0].X, t.Fields[1].X)
}

func (x *Exec) timeUnix(st *State, t Value) *Term {
	u := x.timeFn("unix", t)
	x.vc.assumeOnce(x.m().inRange(u, IntTy{64, true}))
	return u
}

func (x *Exec) timeNsec(st *State, t Value) *Term {
	n := x.timeFn("nsec", t)
	x.vc.assumeOnce(And(iLe(IntLit(0), n), iLt(n, IntLit(1000000000))))
	return n
}

func init() {
	none := newModSet
	reg := func(name string, f stubFn) {
		stubs[name] = f
		stubEffectTable[name] = none
	}
	reg("(time.Time).Unix", func(x *Exec, fr *Frame, st *State, callee *ssa.Function, args []Value, pos token.Pos) Value {
		if x.m() != ModeInt {
			unsupported("time.Time in mode bv")
		}
		return Value{K: KScalar, T: types.Typ[types.Int64], X: x.timeUnix(st, args[0])}
	})
	reg("time.Unix", func(x *Exec, fr *Frame, st *State, callee *ssa.Function, args []Value, pos token.Pos) Value {
		rt := callee.Signature.Results().At(0).Type()
		v := x.havocValue(st, rt, "time")
		sec, nsec := args[0].X, args[1].X
		// normalised: unix = sec + floor(nsec / 1e9), nanosecond = nsec mod 1e9
		x.vc.assume(Implies(st.Reach, And(
			Eq(x.timeUnix(st, v), wrapFull(iAdd(sec, iDivE(nsec, IntLit(1000000000))), IntTy{64, true})),
			Eq(x.timeNsec(st, v), iModE(nsec, IntLit(1000000000))))))
		return v
	})
	reg("(time.Time).Add", func(x *Exec, fr *Frame, st *State, callee *ssa.Function, args []Value, pos token.Pos) Value {
		if x.m() != ModeInt {
			unsupported("time.Time in mode bv")
		}
		rt := callee.Signature.Results().At(0).Type()
		v := x.havocValue(st, rt, "time")
		tot := iAdd(x.timeNsec(st, args[0]), args[1].X)
		// t + d: seconds carry from the nanosecond sum (Go saturates only beyond the int64 second range)
		x.vc.assume(Implies(st.Reach, And(
			Eq(x.timeUnix(st, v), wrapFull(iAdd(x.timeUnix(st, args[0]), iDivE(tot, IntLit(1000000000))), IntTy{64, true})),
			Eq(x.timeNsec(st, v), iModE(tot, IntLit(1000000000))))))
		return v
	})
	cmp := func(name string, f func(x *Exec, st *State, a, b Value) *Term) {
		reg("(time.Time)."+name, func(x *Exec, fr *Frame, st *State, callee *ssa.Function, args []Value, pos token.Pos) Value {
			return Value{K: KScalar, X: f(x, st, args[0], args[1])}
		})
	}
	cmp("After", func(x *Exec, st *State, a, b Value) *Term {
		ua, ub, na, nb := x.timeUnix(st, a), x.timeUnix(st, b), x.timeNsec(st, a), x.timeNsec(st, b)
		return Or(iGt(ua, ub), And(Eq(ua, ub), iGt(na, nb)))
	})
	cmp("Before", func(x *Exec, st *State, a, b Value) *Term {
		ua, ub, na, nb := x.timeUnix(st, a), x.timeUnix(st, b), x.timeNsec(st, a), x.timeNsec(st, b)
		return Or(iLt(ua, ub), And(Eq(ua, ub), iLt(na, nb)))
	})
	cmp("Equal", func(x *Exec, st *State, a, b Value) *Term {
		return And(Eq(x.timeUnix(st, a), x.timeUnix(st, b)), Eq(x.timeNsec(st, a), x.timeNsec(st, b)))
	})
}
