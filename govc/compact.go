package main

import "fmt"

// compactHeap names every heap component whose current term is not atomic, so that later terms
// refer to it by name: without this, store chains are re-printed inside every term that uses the
// heap (tree printing of a DAG), which is quadratic to exponential in the function size.
func (x *Exec) compactHeap(st *State) {
	for _, k := range sortedKeys(st.H) {
		t := st.H[k]
		if len(t.Args) == 0 && len(t.Vars) == 0 {
			continue
		}
		x.vc.nheap++
		st.H[k] = x.vc.define(fmt.Sprintf("H.%s.v%d", k, x.vc.nheap), t)
	}
}

// Typed heap: Is.<T>[r] holds for the references allocated as a T (struct types). Quantifiers
// over *T range over these, so allocating objects of other types does not disturb them.
func isTypeComp(t interface{ String() string }) string {
	return "Is." + t.String()
}

func (x *Exec) isType(st *State, t interface{ String() string }) *Term {
	return x.comp(st, isTypeComp(t), SArr(refSort, SBool))
}
