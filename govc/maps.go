package main

// Go maps: a map value is a reference; per map type three heap components hold the domain, the
// values and the length. Keys with several leaves (structs) are curried.

import (
	"fmt"
	"strings"
	"go/token"
	"go/types"

	"golang.org/x/tools/go/ssa"
)

type mapInfo struct {
	key    string
	kt, vt types.Type
	ksorts []string
}

func (x *Exec) mapInfoOf(t types.Type) mapInfo {
	mt := t.Underlying().(*types.Map)
	mi := mapInfo{key: "Map." + typeKey(mt), kt: mt.Key(), vt: mt.Elem()}
	for _, lf := range x.m().flatten(mt.Key()) {
		mi.ksorts = append(mi.ksorts, lf.Sort)
	}
	return mi
}

func curried(ksorts []string, leaf string) string {
	s := leaf
	for i := len(ksorts) - 1; i >= 0; i-- {
		s = SArr(ksorts[i], s)
	}
	return s
}

func (x *Exec) mapDom(st *State, mi mapInfo) *Term {
	return x.comp(st, mi.key+".dom", SArr(refSort, curried(mi.ksorts, SBool)))
}
func (x *Exec) mapLenComp(st *State, mi mapInfo) *Term {
	return x.comp(st, mi.key+".len", SArr(refSort, x.m().ixSort()))
}

// keyLeaves: the SMT index terms of a key. Fixed-size array components ([32]byte hashes) are
// normalised (zero outside 0..N-1) so that index equality coincides with Go's element-wise ==.
func (x *Exec) keyLeaves(k Value) []*Term {
	if !k.isCanonical() {
		unsupported("map key holding an interior pointer")
	}
	m := x.m()
	ls := k.leaves(m)
	if k.T == nil {
		return ls
	}
	lfs := m.flatten(k.T)
	if len(lfs) != len(ls) {
		return ls
	}
	out := make([]*Term, len(ls))
	for i, lf := range lfs {
		out[i] = ls[i]
		if lf.T == nil {
			continue
		}
		at, ok := lf.T.Underlying().(*types.Array)
		if !ok {
			continue
		}
		name := fmt.Sprintf("norm%d", at.Len())
		q := quoteSym(name + "." + lf.Sort)
		if _, ok := x.vc.declared[q]; !ok {
			x.vc.declared[q] = lf.Sort
			// norm is an abstraction of the array modulo element-wise equality on 0..N-1:
			// norm(a) = norm(b)  <=>  a[0]=b[0] && ... && a[N-1]=b[N-1]
			var eqs []string
			for j := int64(0); j < at.Len(); j++ {
				ix := fmt.Sprintf("%d", j)
				if m == ModeBV {
					ix = fmt.Sprintf("(_ bv%d 64)", j)
				}
				eqs = append(eqs, fmt.Sprintf("(= (select a %s) (select b %s))", ix, ix))
			}
			raw := fmt.Sprintf("(declare-fun %s (%s) %s)\n(assert (forall ((a %s) (b %s)) (! (= (= (%s a) (%s b)) (and %s)) :pattern ((%s a) (%s b)))))",
				q, lf.Sort, lf.Sort, lf.Sort, lf.Sort, q, q, strings.Join(eqs, " "), q, q)
			x.vc.items = append(x.vc.items, Item{Kind: "declfun", Name: q, Raw: raw})
		}
		out[i] = App(q, lf.Sort, ls[i])
	}
	return out
}

func (x *Exec) mapHas(st *State, mi mapInfo, ref *Term, k Value) *Term {
	return And(Not(Eq(ref, nilRef)), nestedSelect(Select(x.mapDom(st, mi), ref), x.keyLeaves(k)))
}

func (x *Exec) mapGet(st *State, mi mapInfo, ref *Term, k Value) Value {
	m := x.m()
	var ls []*Term
	kl := x.keyLeaves(k)
	if kindOf(mi.vt) == KStruct && len(m.flatten(mi.vt)) == 0 {
		return x.zeroValue(mi.vt) // struct{}
	}
	for _, lf := range m.flatten(mi.vt) {
		c := x.comp(st, mi.key+".val"+lf.Suffix, SArr(refSort, curried(mi.ksorts, lf.Sort)))
		ls = append(ls, nestedSelect(Select(c, ref), kl))
	}
	v, _ := m.fromLeaves(mi.vt, ls)
	return v
}

func (x *Exec) mapLookup(fr *Frame, st *State, i *ssa.Lookup, base Value) {
	if base.K != KMap {
		unsupported("lookup on %v", base.K)
	}
	mi := x.mapInfoOf(i.X.Type())
	x.exactKey(fr, st, i.Index, i.Pos())
	k := x.get(fr, st, i.Index)
	has := x.vc.define(fmt.Sprintf("f%d.%s.ok", fr.id, i.Name()), x.mapHas(st, mi, base.X, k))
	val := x.mapGet(st, mi, base.X, k)
	x.assumeLoaded(st, val)
	res := x.mergeValues(has, val, x.zeroValue(mi.vt))
	if i.CommaOk {
		fr.env[i] = Value{T: i.Type(), K: KTuple, Fields: []Value{x.nameValue(fr, fmt.Sprintf("f%d.%s", fr.id, i.Name()), res), {K: KScalar, T: types.Typ[types.Bool], X: has}}}
		return
	}
	x.setv(fr, i, res)
}

func (x *Exec) mapStore(st *State, mi mapInfo, ref *Term, k, v Value) {
	m := x.m()
	kl := x.keyLeaves(k)
	has := nestedSelect(Select(x.mapDom(st, mi), ref), kl)
	ln := x.mapLenComp(st, mi)
	st.H[mi.key+".len"] = Store(ln, ref, Ite(has, Select(ln, ref), x.ixAdd(Select(ln, ref), m.ix(1))))
	dom := x.mapDom(st, mi)
	st.H[mi.key+".dom"] = Store(dom, ref, nestedStore(Select(dom, ref), kl, TTrue))
	if !v.isCanonical() {
		unsupported("map value holding an interior pointer")
	}
	vl := v.leaves(m)
	for li, lf := range m.flatten(mi.vt) {
		name := mi.key + ".val" + lf.Suffix
		c := x.comp(st, name, SArr(refSort, curried(mi.ksorts, lf.Sort)))
		st.H[name] = Store(c, ref, nestedStore(Select(c, ref), kl, vl[li]))
	}
}

func (x *Exec) mapUpdate(fr *Frame, st *State, i *ssa.MapUpdate) {
	mv := x.get(fr, st, i.Map)
	mi := x.mapInfoOf(i.Map.Type())
	x.check(fr, st, "nil", Not(Eq(mv.X, nilRef)), i.Pos(), "assignment to entry in nil map")
	x.exactKey(fr, st, i.Key, i.Pos())
	x.mapStore(st, mi, mv.X, x.get(fr, st, i.Key), x.get(fr, st, i.Value))
}

func (x *Exec) makeMap(fr *Frame, st *State, i *ssa.MakeMap) {
	mi := x.mapInfoOf(i.Type())
	r := x.newRef(st, fmt.Sprintf("f%d.%s", fr.id, i.Name()))
	dom := x.mapDom(st, mi)
	inner := curried(mi.ksorts, SBool)
	st.H[mi.key+".dom"] = Store(dom, r, x.constNested(inner, TFalse))
	ln := x.mapLenComp(st, mi)
	st.H[mi.key+".len"] = Store(ln, r, x.m().ix(0))
	fr.env[i] = Value{T: i.Type(), K: KMap, X: r}
}

// constNested builds a constant array of a (possibly nested) array sort.
func (x *Exec) constNested(sort string, leaf *Term) *Term {
	_, e, ok := arrSorts(sort)
	if !ok {
		return leaf
	}
	return x.constArray(sort, x.constNested(e, leaf))
}

func (x *Exec) mapLen(st *State, mv Value) *Term {
	mi := x.mapInfoOf(mv.T)
	ln := Select(x.mapLenComp(st, mi), mv.X)
	x.vc.assumeOnce(x.m().cmp(token.LEQ, x.m().ix(0), ln, IntTy{64, true}))
	return Ite(Eq(mv.X, nilRef), x.m().ix(0), ln)
}

func (x *Exec) mapDelete(fr *Frame, st *State, mv, k Value) {
	mi := x.mapInfoOf(mv.T)
	m := x.m()
	kl := x.keyLeaves(k)
	has := And(Not(Eq(mv.X, nilRef)), nestedSelect(Select(x.mapDom(st, mi), mv.X), kl))
	ln := x.mapLenComp(st, mi)
	st.H[mi.key+".len"] = Store(ln, mv.X, Ite(has, x.ixSub(Select(ln, mv.X), m.ix(1)), Select(ln, mv.X)))
	dom := x.mapDom(st, mi)
	// deleting from a nil map is a no-op; writing the (unused) cell of ref 0 is harmless
	st.H[mi.key+".dom"] = Store(dom, mv.X, nestedStore(Select(dom, mv.X), kl, TFalse))
}

// contract-level m[k] and has(m, k)
func (x *Exec) mapGetSpec(c *CEnv, mv, k Value) Value {
	mi := x.mapInfoOf(mv.T)
	v := x.mapGet(c.heap(), mi, mv.X, k)
	x.assumeLoaded(c.heap(), v)
	// Go semantics: a missing key reads as the zero value
	return x.mergeValues(x.mapHas(c.heap(), mi, mv.X, k), v, x.zeroValue(mi.vt))
}

// range over a map. Go leaves the order unspecified, yields each key present at that moment at most
// once, and may or may not yield keys inserted during the iteration. The model is an
// over-approximation of that: every Next either ends the iteration or yields SOME key that is in
// the map at that moment, with its value (no order, no "at most once", no "all keys"). Everything
// proved about the loop therefore holds for every real iteration order; "every entry was visited"
// cannot be concluded from it.
func (x *Exec) rangeInit(fr *Frame, st *State, i *ssa.Range) {
	base := x.get(fr, st, i.X)
	if base.K != KMap && base.K != KString {
		unsupported("range over %v", base.K)
	}
	fr.env[i] = base
}

// range over a string. The model is an over-approximation of UTF-8 iteration, like the map model:
// every Next either ends the iteration or yields SOME byte position k of the string together with a
// rune r such that r is that byte when the byte is ASCII (< 0x80), and otherwise some value in
// [0x80, 0x10FFFF] (what a multi-byte sequence decodes to, or U+FFFD for an invalid one). No order, no
// "every position is visited". What is proved about one iteration holds for every real iteration.
func (x *Exec) rangeNextString(fr *Frame, st *State, i *ssa.Next) {
	m := x.m()
	ixT := IntTy{64, true}
	base := x.get(fr, st, i.Iter)
	if base.K != KString {
		unsupported("range next on %v", base.K)
	}
	okT := x.vc.fresh(fmt.Sprintf("f%d.%s.more", fr.id, i.Name()), SBool)
	k := x.vc.fresh(fmt.Sprintf("f%d.%s.pos", fr.id, i.Name()), m.ixSort())
	r := x.vc.fresh(fmt.Sprintf("f%d.%s.rune", fr.id, i.Name()), m.intSort(IntTy{32, true}))
	rT := IntTy{32, true}
	bT := IntTy{8, false}
	by := Select(base.X, k)
	inStr := And(m.cmp(token.LEQ, m.ix(0), k, ixT), m.cmp(token.LSS, k, base.Len, ixT))
	ascii := m.cmp(token.LSS, by, m.lit(bigInt(0x80), bT), bT)
	asRune := m.convert(by, bT, rT)
	multi := And(m.cmp(token.GEQ, r, m.lit(bigInt(0x80), rT), rT), m.cmp(token.LEQ, r, m.lit(bigInt(0x10FFFF), rT), rT))
	x.vc.assume(Implies(And(st.Reach, okT), And(inStr, Ite(ascii, Eq(r, asRune), multi))))
	tt := i.Type().(*types.Tuple)
	fields := []Value{{K: KScalar, T: types.Typ[types.Bool], X: okT}}
	if b, isB := tt.At(1).Type().(*types.Basic); isB && b.Kind() == types.Invalid {
		fields = append(fields, Value{K: KTuple})
	} else {
		fields = append(fields, Value{K: KScalar, T: types.Typ[types.Int], X: k})
	}
	if b, isB := tt.At(2).Type().(*types.Basic); isB && b.Kind() == types.Invalid {
		fields = append(fields, Value{K: KTuple})
	} else {
		fields = append(fields, Value{K: KScalar, T: types.Typ[types.Rune], X: r})
	}
	fr.env[i] = Value{T: i.Type(), K: KTuple, Fields: fields}
}

func (x *Exec) rangeNext(fr *Frame, st *State, i *ssa.Next) {
	if i.IsString {
		x.rangeNextString(fr, st, i)
		return
	}
	rng, ok := i.Iter.(*ssa.Range)
	if !ok {
		unsupported("range next on unknown iterator")
	}
	base := x.get(fr, st, i.Iter)
	if base.K != KMap {
		unsupported("range next on %v", base.K)
	}
	mi := x.mapInfoOf(rng.X.Type())
	okT := x.vc.fresh(fmt.Sprintf("f%d.%s.more", fr.id, i.Name()), SBool)
	key := x.havocValue(st, mi.kt, fmt.Sprintf("f%d.%s.key", fr.id, i.Name()))
	x.vc.assume(Implies(And(st.Reach, okT), x.mapHas(st, mi, base.X, key)))
	val := x.mapGet(st, mi, base.X, key)
	x.assumeLoaded(st, val)
	tt := i.Type().(*types.Tuple)
	fields := []Value{{K: KScalar, T: types.Typ[types.Bool], X: okT}}
	if b, isB := tt.At(1).Type().(*types.Basic); isB && b.Kind() == types.Invalid {
		fields = append(fields, Value{K: KTuple})
	} else {
		key.T = mi.kt
		fields = append(fields, key)
	}
	if b, isB := tt.At(2).Type().(*types.Basic); isB && b.Kind() == types.Invalid {
		fields = append(fields, Value{K: KTuple})
	} else {
		val.T = mi.vt
		fields = append(fields, val)
	}
	fr.env[i] = Value{T: i.Type(), K: KTuple, Fields: fields}
}

// exactKey ("exactkeys" clause): a map key formed directly by a narrowing integer conversion must equal the
// value it was converted from; otherwise distinct values share a key and the map no longer represents them.
func (x *Exec) exactKey(fr *Frame, st *State, key ssa.Value, pos token.Pos) {
	if fr.top.fc == nil || !fr.top.fc.ExactKeys {
		return
	}
	cv, ok := key.(*ssa.Convert)
	if !ok {
		return
	}
	from, ok1 := intTyOf(cv.X.Type())
	to, ok2 := intTyOf(cv.Type())
	if !ok1 || !ok2 || to.W >= from.W && to.Signed == from.Signed {
		return
	}
	src := x.get(fr, st, cv.X)
	m := x.m()
	var g *Term
	if m == ModeInt {
		g = m.inRange(src.X, to)
	} else {
		return
	}
	o := x.vc.oblige("keyconv", Implies(st.Reach, g), x.posOf(fr.fn, pos), fmt.Sprintf("map key %s(%s) preserves the value", cv.Type(), cv.X.Name()))
	o.Clause = "exactkeys"
}
