package main

// Maps (placeholder until the map model is built).

import (
	"golang.org/x/tools/go/ssa"
)

func (x *Exec) mapLookup(fr *Frame, st *State, i *ssa.Lookup, base Value) { unsupported("map lookup") }
func (x *Exec) mapUpdate(fr *Frame, st *State, i *ssa.MapUpdate)          { unsupported("map update") }
func (x *Exec) makeMap(fr *Frame, st *State, i *ssa.MakeMap)              { unsupported("make map") }
func (x *Exec) mapLen(st *State, m Value) *Term                            { unsupported("map len"); return nil }
func (x *Exec) mapDelete(fr *Frame, st *State, m, k Value)                 { unsupported("map delete") }
func (x *Exec) mapGetSpec(c *CEnv, m, k Value) Value                       { unsupported("map index in contract"); return Value{} }
func (x *Exec) rangeInit(fr *Frame, st *State, i *ssa.Range)               { unsupported("range over map/string") }
func (x *Exec) rangeNext(fr *Frame, st *State, i *ssa.Next)                { unsupported("range next") }
