package main

// Assumed contracts for dependencies outside /repo live here (every one is listed as an assumption).
var stubsDir = "/verif/stubs"
