package main

// Private locals: an address-taken local variable (ssa.Alloc) whose address never leaves the function
// - it is only loaded from, stored to, indexed, sliced for copy/len/read-only library calls - cannot
// be changed by a callee. Its cells are carried across the heap havoc of a call.

import (
	"go/types"
	"strings"

	"golang.org/x/tools/go/ssa"
)

var privateCache = map[*ssa.Function]map[*ssa.Alloc]bool{}

// escapeCache: for the address-taken locals that do escape, the instructions at which they do.
var escapeCache = map[*ssa.Function]map[*ssa.Alloc][]ssa.Instruction{}
var reachCache = map[*ssa.Function]map[[2]int]bool{}

// blockReaches: there is a CFG path of at least one edge from block a to block b.
func blockReaches(fn *ssa.Function, a, b *ssa.BasicBlock) bool {
	m, ok := reachCache[fn]
	if !ok {
		m = map[[2]int]bool{}
		for _, s := range fn.Blocks {
			seen := map[*ssa.BasicBlock]bool{}
			stack := append([]*ssa.BasicBlock{}, s.Succs...)
			for len(stack) > 0 {
				t := stack[len(stack)-1]
				stack = stack[:len(stack)-1]
				if seen[t] {
					continue
				}
				seen[t] = true
				m[[2]int{s.Index, t.Index}] = true
				stack = append(stack, t.Succs...)
			}
		}
		reachCache[fn] = m
	}
	return m[[2]int{a.Index, b.Index}]
}

func instrIndex(i ssa.Instruction) int {
	for k, j := range i.Block().Instrs {
		if j == i {
			return k
		}
	}
	return -1
}

// notYetEscaped: none of the escapes of a can have executed before (or be) the instruction cur.
func notYetEscaped(fn *ssa.Function, escapes []ssa.Instruction, cur ssa.Instruction) bool {
	if cur == nil || cur.Block() == nil {
		return false
	}
	for _, u := range escapes {
		if u == cur || u.Block() == nil {
			return false
		}
		if u.Block() == cur.Block() && instrIndex(u) < instrIndex(cur) {
			return false
		}
		if blockReaches(fn, u.Block(), cur.Block()) {
			return false
		}
	}
	return true
}

// readOnlyLib: library functions that only read the bytes of their slice arguments and keep no reference.
func readOnlyLib(full string) bool {
	for _, p := range []string{"bytes.Equal", "bytes.Compare", "bytes.HasPrefix", "bytes.HasSuffix", "bytes.IndexByte", "bytes.Contains", "strings.IndexByte", "strings.LastIndexByte",
		"(encoding/binary.littleEndian).Uint", "(encoding/binary.bigEndian).Uint", "(encoding/binary.littleEndian).PutUint", "(encoding/binary.bigEndian).PutUint",
		"encoding/hex.EncodeToString", "crypto/sha256.Sum256", "hash/crc32.Checksum"} {
		if strings.HasPrefix(full, p) {
			return true
		}
	}
	return false
}

func derivedStaysLocal(v ssa.Value, seen map[ssa.Value]bool) bool {
	var esc []ssa.Instruction
	return collectEscapes(v, seen, &esc) && len(esc) == 0
}

// collectEscapes lists the instructions at which the address v (or something derived from it) leaves the
// function's hands; false when a use cannot be analysed at all.
func collectEscapes(v ssa.Value, seen map[ssa.Value]bool, esc *[]ssa.Instruction) bool {
	if seen[v] {
		return true
	}
	seen[v] = true
	refs := v.Referrers()
	if refs == nil {
		return false
	}
	out := func(i ssa.Instruction) bool { *esc = append(*esc, i); return true }
	_ = out
	for _, ref := range *refs {
		switch r := ref.(type) {
		case *ssa.DebugRef:
		case *ssa.UnOp: // load
		case *ssa.Store:
			if r.Val == v {
				*esc = append(*esc, r) // the address itself is stored somewhere
			}
		case *ssa.FieldAddr, *ssa.IndexAddr, *ssa.Slice, *ssa.Phi:
			if !collectEscapes(r.(ssa.Value), seen, esc) {
				return false
			}
		case *ssa.Index, *ssa.Lookup, *ssa.Range:
		case *ssa.Convert:
			// string(bytes) copies the bytes; any other conversion keeps the reference
			if bt, ok := r.Type().Underlying().(*types.Basic); !ok || bt.Info()&types.IsString == 0 {
				*esc = append(*esc, r)
			}
		case *ssa.ChangeType:
			if !collectEscapes(r, seen, esc) {
				return false
			}
		case *ssa.Call:
			cc := r.Common()
			if bi, ok := cc.Value.(*ssa.Builtin); ok {
				switch bi.Name() {
				case "len", "cap", "copy":
					continue
				case "append":
					// append(dst, src...): reading src is fine; as dst the result aliases it
					if len(cc.Args) > 0 && cc.Args[0] == v {
						if !collectEscapes(r, seen, esc) {
							return false
						}
					}
					continue
				}
				*esc = append(*esc, r)
				continue
			}
			if callee := cc.StaticCallee(); callee != nil && readOnlyLib(callee.String()) {
				continue
			}
			*esc = append(*esc, r)
		default:
			*esc = append(*esc, ref)
		}
	}
	return true
}

func privateAllocs(fn *ssa.Function) map[*ssa.Alloc]bool {
	if m, ok := privateCache[fn]; ok {
		return m
	}
	m := map[*ssa.Alloc]bool{}
	privateCache[fn] = m
	em := map[*ssa.Alloc][]ssa.Instruction{}
	escapeCache[fn] = em
	consider := func(a *ssa.Alloc) {
		var esc []ssa.Instruction
		if collectEscapes(a, map[ssa.Value]bool{}, &esc) {
			if len(esc) == 0 {
				m[a] = true
			} else {
				em[a] = esc
			}
		}
	}
	for _, l := range fn.Locals {
		consider(l)
	}
	for _, b := range fn.Blocks {
		for _, ins := range b.Instrs {
			if a, ok := ins.(*ssa.Alloc); ok && a.Heap {
				consider(a)
			}
		}
	}
	return m
}

type savedCell struct {
	comp string
	root *Term
	val  *Term
}

// savePrivate records the cells of the private locals of fr (and of the frames it is inlined into).
func (x *Exec) savePrivate(fr *Frame, st *State) []savedCell {
	var out []savedCell
	for f := fr; f != nil; f = f.parent {
		cands := map[*ssa.Alloc]bool{}
		for a := range privateAllocs(f.fn) {
			cands[a] = true
		}
		// locals whose address does leave the function, but cannot have left it yet at this point
		for a, esc := range escapeCache[f.fn] {
			if notYetEscaped(f.fn, esc, f.cur) {
				cands[a] = true
			}
		}
		for a := range cands {
			v, ok := f.env[a]
			if !ok || v.K != KPtr || v.Loc == nil || len(v.Loc.Elems) != 0 || v.Loc.Off != nil {
				continue
			}
			for _, k := range sortedKeys(st.H) {
				if k == v.Loc.Prefix || strings.HasPrefix(k, v.Loc.Prefix+".") {
					if _, _, isArr := arrSorts(st.H[k].S); !isArr {
						continue
					}
					out = append(out, savedCell{k, v.Loc.Root, Select(st.H[k], v.Loc.Root)})
				}
			}
		}
	}
	return out
}

func (x *Exec) restorePrivate(st *State, cells []savedCell) {
	for _, c := range cells {
		if h, ok := st.H[c.comp]; ok {
			st.H[c.comp] = Store(h, c.root, c.val)
		}
	}
}

// havocHeapKeep: heap havoc of a call made from fr; private locals keep their contents.
func (x *Exec) havocHeapKeep(fr *Frame, st *State, why string, ms *ModSet) {
	cells := x.savePrivate(fr, st)
	x.havocHeap(st, why, ms)
	x.restorePrivate(st, cells)
}
