package main

// Private locals: an address-taken local variable (ssa.Alloc) whose address never leaves the function
// - it is only loaded from, stored to, indexed, sliced for copy/len/read-only library calls - cannot
// be changed by a callee. Its cells are carried across the heap havoc of a call.

import (
	"go/types"
	"strings"

	"golang.org/x/tools/go/ssa"
)

var privateCache = map[*ssa.Function]map[*ssa.Alloc]bool{}

// readOnlyLib: library functions that only read the bytes of their slice arguments and keep no reference.
func readOnlyLib(full string) bool {
	for _, p := range []string{"bytes.Equal", "bytes.Compare", "bytes.HasPrefix", "bytes.HasSuffix", "bytes.IndexByte", "bytes.Contains",
		"(encoding/binary.littleEndian).Uint", "(encoding/binary.bigEndian).Uint", "(encoding/binary.littleEndian).PutUint", "(encoding/binary.bigEndian).PutUint",
		"encoding/hex.EncodeToString", "crypto/sha256.Sum256", "hash/crc32.Checksum"} {
		if strings.HasPrefix(full, p) {
			return true
		}
	}
	return false
}

func derivedStaysLocal(v ssa.Value, seen map[ssa.Value]bool) bool {
	if seen[v] {
		return true
	}
	seen[v] = true
	refs := v.Referrers()
	if refs == nil {
		return false
	}
	for _, ref := range *refs {
		switch r := ref.(type) {
		case *ssa.DebugRef:
		case *ssa.UnOp: // load
		case *ssa.Store:
			if r.Val == v {
				return false // the address itself is stored somewhere
			}
		case *ssa.FieldAddr, *ssa.IndexAddr, *ssa.Slice, *ssa.Phi:
			if !derivedStaysLocal(r.(ssa.Value), seen) {
				return false
			}
		case *ssa.Index, *ssa.Lookup, *ssa.Range:
		case *ssa.Convert:
			// string(bytes) copies the bytes; any other conversion keeps the reference
			if bt, ok := r.Type().Underlying().(*types.Basic); !ok || bt.Info()&types.IsString == 0 {
				return false
			}
		case *ssa.ChangeType:
			if !derivedStaysLocal(r, seen) {
				return false
			}
		case *ssa.Call:
			cc := r.Common()
			if bi, ok := cc.Value.(*ssa.Builtin); ok {
				switch bi.Name() {
				case "len", "cap", "copy":
					continue
				case "append":
					// append(dst, src...): reading src is fine; as dst the result aliases it
					if len(cc.Args) > 0 && cc.Args[0] == v {
						if !derivedStaysLocal(r, seen) {
							return false
						}
					}
					continue
				}
				return false
			}
			if callee := cc.StaticCallee(); callee != nil && readOnlyLib(callee.String()) {
				continue
			}
			return false
		default:
			return false
		}
	}
	return true
}

func privateAllocs(fn *ssa.Function) map[*ssa.Alloc]bool {
	if m, ok := privateCache[fn]; ok {
		return m
	}
	m := map[*ssa.Alloc]bool{}
	privateCache[fn] = m
	consider := func(a *ssa.Alloc) {
		if derivedStaysLocal(a, map[ssa.Value]bool{}) {
			m[a] = true
		}
	}
	for _, l := range fn.Locals {
		consider(l)
	}
	for _, b := range fn.Blocks {
		for _, ins := range b.Instrs {
			if a, ok := ins.(*ssa.Alloc); ok && a.Heap {
				consider(a)
			}
		}
	}
	return m
}

type savedCell struct {
	comp string
	root *Term
	val  *Term
}

// savePrivate records the cells of the private locals of fr (and of the frames it is inlined into).
func (x *Exec) savePrivate(fr *Frame, st *State) []savedCell {
	var out []savedCell
	for f := fr; f != nil; f = f.parent {
		for a := range privateAllocs(f.fn) {
			v, ok := f.env[a]
			if !ok || v.K != KPtr || v.Loc == nil || len(v.Loc.Elems) != 0 || v.Loc.Off != nil {
				continue
			}
			for _, k := range sortedKeys(st.H) {
				if k == v.Loc.Prefix || strings.HasPrefix(k, v.Loc.Prefix+".") {
					if _, _, isArr := arrSorts(st.H[k].S); !isArr {
						continue
					}
					out = append(out, savedCell{k, v.Loc.Root, Select(st.H[k], v.Loc.Root)})
				}
			}
		}
	}
	return out
}

func (x *Exec) restorePrivate(st *State, cells []savedCell) {
	for _, c := range cells {
		if h, ok := st.H[c.comp]; ok {
			st.H[c.comp] = Store(h, c.root, c.val)
		}
	}
}

// havocHeapKeep: heap havoc of a call made from fr; private locals keep their contents.
func (x *Exec) havocHeapKeep(fr *Frame, st *State, why string, ms *ModSet) {
	cells := x.savePrivate(fr, st)
	x.havocHeap(st, why, ms)
	x.restorePrivate(st, cells)
}
