package main

// The registered check: govc check -prop Cxx -tier quick|thorough
//
// Regenerates every obligation of the property from /repo's working tree, discharges them,
// prints VIOLATION / KNOWN-FINDING lines, writes evidence, exits 0/1.

import (
	"encoding/json"
	"flag"
	"fmt"
	"os"
	"path/filepath"
	"sort"
	"strconv"
	"strings"
	"time"
)

type PropTarget struct {
	Module   string   `json:"module"`   // directory of the Go module under /repo ("." = root)
	Packages []string `json:"packages"` // package patterns relative to the module
}

type PropConfig struct {
	ID        string       `json:"id"`
	Targets   []PropTarget `json:"targets"`
	Functions []string     `json:"functions"` // "<shortpkg>.<Func>" that must be under contract for this property
	Lemmas    []string     `json:"lemmas"`
	Residue   []string     `json:"residue"`
	Bounded   []string     `json:"bounded_standins"`
}

type KnownFinding struct {
	Property   string `json:"property"`
	Obligation string `json:"obligation"`
	What       string `json:"what"`
	Witness    string `json:"witness"`     // human-readable failing input
	ReplayTest string `json:"replay_test"` // file with a Go test body reproducing it (relative to /verif)
	Package    string `json:"package"`     // directory under /repo where the replay test runs
}

type KnownFile struct {
	Findings []KnownFinding `json:"findings"`
	Fixed    []string       `json:"fixed"`
}

func loadProps(verifDir string) (map[string]*PropConfig, error) {
	b, err := os.ReadFile(filepath.Join(verifDir, "props.json"))
	if err != nil {
		return nil, err
	}
	var list []*PropConfig
	if err := json.Unmarshal(b, &list); err != nil {
		return nil, err
	}
	m := map[string]*PropConfig{}
	for _, p := range list {
		m[p.ID] = p
	}
	return m, nil
}

func hasProp(props []string, id string) bool {
	for _, p := range props {
		if p == id {
			return true
		}
	}
	return false
}

type fnEvidence struct {
	Obligations int               `json:"obligations"`
	Discharged  int               `json:"discharged"`
	SolverMs    int64             `json:"solver_ms"`
	Backends    map[string]int    `json:"backends"`
	Notes       []string          `json:"notes,omitempty"`
	Kinds       map[string]int    `json:"kinds"`
	Failed      []string          `json:"failed,omitempty"`
	Mode        string            `json:"mode"`
	File        string            `json:"source"`
	Skipped     int               `json:"thorough_only_skipped,omitempty"`
	_           map[string]string `json:"-"`
}

func cmdCheck(args []string) int {
	fs := flag.NewFlagSet("check", flag.ExitOnError)
	repo := fs.String("repo", "/repo", "repository root")
	verifDir := fs.String("verif", "/verif", "verif directory")
	prop := fs.String("prop", "", "property id")
	tier := fs.String("tier", "quick", "quick|thorough")
	keep := fs.String("dump", "", "keep SMT files here")
	fs.Parse(args)
	t0 := time.Now()
	seed, _ := strconv.Atoi(os.Getenv("VERIF_SEED"))
	if t := os.Getenv("VERIF_TIER"); t == "quick" || t == "thorough" {
		*tier = t
	}
	props, err := loadProps(*verifDir)
	if err != nil {
		fmt.Println("cannot read props.json:", err)
		return 2
	}
	pc := props[*prop]
	if pc == nil {
		fmt.Println("unknown property", *prop)
		return 2
	}
	var known KnownFile
	if b, err := os.ReadFile(filepath.Join(*verifDir, "known_findings.json")); err == nil {
		json.Unmarshal(b, &known)
	}
	dir := *keep
	if dir == "" {
		base := os.Getenv("TMPDIR")
		if base == "" {
			base = "/var/tmp"
		}
		d, err := os.MkdirTemp(base, "govc-"+*prop+"-")
		if err != nil {
			fmt.Println(err)
			return 2
		}
		dir = d
		defer os.RemoveAll(d)
	} else {
		os.MkdirAll(dir, 0o755)
	}
	timeout := 10
	if *tier == "thorough" {
		timeout = 60
	}

	type genItem struct {
		name string
		res  *VerifyResult
		fc   *FuncContract
		lm   *Lemma
		pi   *PkgInfo
	}
	var gens []genItem
	var engineErrs []string
	assumptions := map[string]bool{}
	foundFns := map[string]bool{}
	foundLemmas := map[string]bool{}
	var unis []*Universe
	for _, tg := range pc.Targets {
		modDir := filepath.Join(*repo, tg.Module)
		u, err := loadUniverse(*repo, modDir, tg.Packages)
		if err != nil {
			engineErrs = append(engineErrs, fmt.Sprintf("load %s %v: %v", tg.Module, tg.Packages, err))
			continue
		}
		unis = append(unis, u)
		var paths []string
		for p := range u.pkgs {
			paths = append(paths, p)
		}
		sort.Strings(paths)
		for _, p := range paths {
			pi := u.pkgs[p]
			if pi.Contracts == nil {
				continue
			}
			for _, a := range pi.Contracts.Assumptions {
				assumptions[a] = true
			}
			if !pi.Local {
				continue
			}
			for _, key := range pi.Contracts.Order {
				fc := pi.Contracts.Funcs[key]
				if !hasProp(fc.Props, *prop) || fc.Trusted {
					continue
				}
				if os.Getenv("GOVC_DEBUG") != "" {
					fmt.Fprintf(os.Stderr, "[%.1fs] gen %s\n", time.Since(t0).Seconds(), key)
				}
				r := genFunction(u, pi, fc)
				name := shortPkg(pi.Path) + "." + key
				foundFns[name] = true
				gens = append(gens, genItem{name: name, res: r, fc: fc, pi: pi})
			}
			for _, lm := range pi.Contracts.Lemmas {
				if !hasProp(lm.Props, *prop) || lm.Axiom {
					continue
				}
				r := genLemma(u, pi, lm)
				name := shortPkg(pi.Path) + ".lemma." + lm.Name
				foundLemmas[name] = true
				gens = append(gens, genItem{name: name, res: r, lm: lm, pi: pi})
			}
		}
	}

	type failure struct {
		obl    string
		reason string
		or     *OblResult
	}
	var failures []failure
	// listed functions must exist and be under contract
	for _, f := range pc.Functions {
		if !foundFns[f] {
			failures = append(failures, failure{obl: f + "#contract", reason: "function listed for this property has no contract in /repo (renamed, removed, or contract file missing)"})
		}
	}
	for _, l := range pc.Lemmas {
		if !foundLemmas[l] {
			failures = append(failures, failure{obl: l + "#lemma", reason: "lemma listed for this property is missing"})
		}
	}
	var obls []*Obl
	fnEv := map[string]*fnEvidence{}
	for _, g := range gens {
		ev := &fnEvidence{Backends: map[string]int{}, Kinds: map[string]int{}}
		fnEv[g.name] = ev
		if g.fc != nil {
			ev.Mode = g.fc.Mode
			ev.File = fmt.Sprintf("%s:%d", g.fc.File, g.fc.Line)
		} else {
			ev.Mode = g.lm.Mode
			ev.File = fmt.Sprintf("%s:%d", g.pi.Contracts.File, g.lm.Line)
		}
		if g.res.Err != nil {
			failures = append(failures, failure{obl: g.name + "#generate", reason: g.res.Err.Error()})
			continue
		}
		ev.Notes = g.res.VC.notes
		n := 0
		for _, o := range g.res.VC.obls {
			if o.Slow && *tier != "thorough" {
				ev.Skipped++
				continue
			}
			if o.Expect != "sat" {
				n++
			}
			obls = append(obls, o)
		}
		if n == 0 {
			failures = append(failures, failure{obl: g.name + "#nonvacuous", reason: "no obligations were generated for this function (vacuous check)"})
		}
	}
	if os.Getenv("GOVC_DEBUG") != "" {
		fmt.Fprintf(os.Stderr, "[%.1fs] solving %d obligations\n", time.Since(t0).Seconds(), len(obls))
	}
	results := solveAll(obls, dir, timeout, 6)
	if os.Getenv("GOVC_DEBUG") != "" {
		fmt.Fprintf(os.Stderr, "[%.1fs] solved\n", time.Since(t0).Seconds())
	}
	// retry non-proved once with a longer timeout (robustness against load)
	for i := range results {
		if results[i].Res.Status == "unknown" {
			results[i].Res = results[i].Obl.solve(dir, timeout*4, seed+1)
		}
	}
	if os.Getenv("GOVC_SLOW") != "" {
		for _, r := range results {
			q := int64(max(r.Res.Queries, 1))
			if r.Res.Ms/q > 3000 {
				fmt.Fprintf(os.Stderr, "SLOW %6dms (%d queries) %s [%s]\n", r.Res.Ms, r.Res.Queries, r.Obl.Name, r.Res.Solver)
			}
		}
	}
	total, discharged, covers := 0, 0, 0
	var samples []map[string]any
	var solverMs int64
	for i := range results {
		r := &results[i]
		ev := fnEv[fnOf(r.Obl.Name)]
		if r.Obl.Expect == "sat" {
			covers++
			if r.Res.Status != "proved" {
				failures = append(failures, failure{obl: r.Obl.Name, reason: "vacuity guard failed: " + r.Obl.Desc + " is unsatisfiable", or: r})
			}
			continue
		}
		total++
		solverMs += r.Res.Ms
		if ev != nil {
			ev.Obligations++
			ev.Kinds[r.Obl.Kind]++
			ev.SolverMs += r.Res.Ms
		}
		if r.Res.Status == "proved" {
			discharged++
			if ev != nil {
				ev.Discharged++
				ev.Backends[r.Res.Solver]++
			}
			if len(samples) < 6 && (r.Obl.Kind == "post" || r.Obl.Kind == "lemma" || strings.HasPrefix(r.Obl.Kind, "inv")) {
				sz := int64(0)
				if fi, err := os.Stat(r.Res.File); err == nil {
					sz = fi.Size()
				}
				samples = append(samples, map[string]any{"obligation": r.Obl.Name, "clause": r.Obl.Clause, "at": r.Obl.Pos.String(), "backend": r.Res.Solver, "ms": r.Res.Ms, "smt_bytes": sz, "queries": r.Res.Queries})
			}
			continue
		}
		if ev != nil {
			ev.Failed = append(ev.Failed, r.Obl.Name)
		}
		reason := "solver answer: " + r.Res.Status
		failures = append(failures, failure{obl: r.Obl.Name, reason: reason, or: r})
	}

	// report
	violations := 0
	replayDir := filepath.Join(*verifDir, "replays", *prop)
	knownPrinted := map[string]bool{}
	knownEv := []map[string]any{}
	for _, f := range failures {
		var kf *KnownFinding
		for i := range known.Findings {
			if known.Findings[i].Property == *prop && known.Findings[i].Obligation == f.obl {
				kf = &known.Findings[i]
			}
		}
		if kf != nil {
			// a known finding is only honoured while its recorded witness still reproduces on the real code
			ok, out := confirmKnown(*repo, *verifDir, kf, dir)
			if ok {
				if !knownPrinted[kf.Obligation] {
					fmt.Printf("KNOWN-FINDING: property=%s %s: %s (witness %s re-confirmed on the real code)\n", *prop, kf.Obligation, kf.What, kf.Witness)
					knownPrinted[kf.Obligation] = true
					// a listed finding is reported on its own, not among the obligations the run claims to have decided as proved
					total--
					knownEv = append(knownEv, map[string]any{"obligation": kf.Obligation, "what": kf.What, "witness": kf.Witness, "replay_test": kf.ReplayTest, "reconfirmed_on_real_code": true})
				}
				continue
			}
			f.reason += "; listed known finding no longer reproduces: " + out
		}
		violations++
		os.MkdirAll(replayDir, 0o755)
		rp := writeReplay(*repo, replayDir, *prop, f.obl, f.reason, f.or, dir)
		line := fmt.Sprintf("VIOLATION property=%s replay=%s", *prop, rp.path)
		if !rp.reproduced {
			line += " no-failing-input-found"
		}
		fmt.Println(line)
		fmt.Printf("  obligation %s: %s\n", f.obl, f.reason)
		if f.or != nil {
			fmt.Printf("  %s (%s)\n", f.or.Obl.Desc, f.or.Obl.Pos)
		}
	}
	for _, e := range engineErrs {
		violations++
		os.MkdirAll(replayDir, 0o755)
		rp := writeReplay(*repo, replayDir, *prop, "engine#load", e, nil, dir)
		fmt.Printf("VIOLATION property=%s replay=%s no-failing-input-found\n  %s\n", *prop, rp.path, e)
	}

	// evidence
	var asm []string
	for a := range assumptions {
		asm = append(asm, a)
	}
	sort.Strings(asm)
	asm = append(asm, baseAssumptions...)
	abstr := map[string]bool{}
	for _, g := range gens {
		if g.res.VC != nil {
			for _, n := range g.res.VC.notes {
				if strings.HasPrefix(n, "abstracted") {
					abstr[g.name+": "+n] = true
				}
			}
		}
	}
	var abstrL []string
	for a := range abstr {
		abstrL = append(abstrL, a)
	}
	sort.Strings(abstrL)
	fnames := sortedKeys(fnEv)
	fuc := map[string]any{}
	for _, n := range fnames {
		fuc[n] = fnEv[n]
	}
	if len(samples) == 0 && len(results) > 0 {
		r := results[0]
		samples = append(samples, map[string]any{"obligation": r.Obl.Name, "clause": r.Obl.Desc, "backend": r.Res.Solver, "ms": r.Res.Ms})
	}
	evid := map[string]any{
		"property_id": *prop,
		"tier":        *tier,
		"seed":        seed,
		"level":       "proof",
		"coverage": map[string]any{
			"obligations":              max(total, 1),
			"discharged":               discharged,
			"checker_cmd":              fmt.Sprintf("/verif/check %s %s", *prop, *tier),
			"trusted_base":             trustedBase,
			"functions_under_contract": fuc,
			"vacuity_covers_run":       covers,
			"samples":                  samples,
			"abstracted":               abstrL,
			"residue_not_decided":      pc.Residue,
			"bounded_standins":         pc.Bounded,
			"known_findings":           knownEv,
			"solver_ms_total":          solverMs,
			"timeout_s":                timeout,
			"explanation":              "every obligation generated from /repo's working tree for the functions and lemmas tagged with this property; proved = unsat from at least one of z3 5.1 / z3 4.8 / cvc5 1.0",
		},
		"assumptions": asm,
		"wall_s":      time.Since(t0).Seconds(),
		"violations":  violations,
	}
	if total == 0 {
		evid["coverage"].(map[string]any)["discharged"] = 0
	}
	os.MkdirAll(filepath.Join(*verifDir, "evidence"), 0o755)
	b, _ := json.MarshalIndent(evid, "", " ")
	os.WriteFile(filepath.Join(*verifDir, "evidence", *prop+".json"), b, 0o644)
	fmt.Printf("%s %s: %d obligations, %d discharged, %d vacuity covers, %d violation(s), %.1fs\n", *prop, *tier, total, discharged, covers, violations, time.Since(t0).Seconds())
	_ = unis
	if violations > 0 {
		return 1
	}
	return 0
}

func fnOf(oblName string) string {
	if i := strings.Index(oblName, "#"); i >= 0 {
		return oblName[:i]
	}
	return oblName
}

var trustedBase = []string{
	"golang.org/x/tools/go/ssa v0.50.0 lowering of /repo source (dead-code elimination and constant folding are go/ssa's)",
	"go/types (go1.26.8)",
	"govc VC generator (/verif/govc)",
	"z3 5.1.0, z3 4.8.12, cvc5 1.0 (an obligation counts as proved when one of them answers unsat)",
}

var baseAssumptions = []string{
	"sequential reasoning: mutexes are no-ops, no concurrent mutation of the data a function reads",
	"no slice has more than 2^56 elements (amd64 address space)",
	"heap cells hold values of their static type; loaded pointers refer to allocated objects (Go memory safety)",
	"pointer parameters do not alias interior fields of other parameters unless the contract says so",
	"sub-modules in the module cache are byte-identical to /repo/<module> at the pinned commit (cross-module calls use the callee's contract from /repo)",
	"calls without contract or stub are havocked (sound over-approximation); they are listed under coverage.abstracted",
}
