package main

// errors.New / fmt.Errorf return a fresh non-nil error (Go library guarantee; assumed).

import (
	"fmt"
	"go/token"

	"golang.org/x/tools/go/ssa"
)

func init() {
	mk := func(x *Exec, fr *Frame, st *State, callee *ssa.Function, args []Value, pos token.Pos) Value {
		r := x.newRef(st, fmt.Sprintf("f%d.err", fr.id))
		return Value{T: callee.Signature.Results().At(0).Type(), K: KIface, X: r}
	}
	allocOnly := func() ModSet { ms := newModSet(); ms.allocs = true; return ms }
	for _, n := range []string{"errors.New", "fmt.Errorf"} {
		stubs[n] = mk
		stubEffectTable[n] = allocOnly
	}
	// os.Exit does not return: the path ends here (nothing after it is reachable)
	stubs["os.Exit"] = func(x *Exec, fr *Frame, st *State, callee *ssa.Function, args []Value, pos token.Pos) Value {
		st.Reach = TFalse
		return Value{K: KTuple}
	}
	stubEffectTable["os.Exit"] = func() ModSet { return newModSet() }
}

// payload(i): the pointer an interface value wraps (uninterpreted; fixed at MakeInterface).
func (x *Exec) payload(iface *Term) *Term {
	q := "payload"
	if _, ok := x.vc.declared[q]; !ok {
		x.vc.declared[q] = SInt
		x.vc.items = append(x.vc.items, Item{Kind: "declfun", Name: q, Raw: "(declare-fun payload (Int) Int)"})
	}
	return App(q, SInt, iface)
}
