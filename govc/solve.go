package main

// SMT-LIB script emission and the solver race.

import (
	"bytes"
	"context"
	"fmt"
	"os"
	"os/exec"
	"path/filepath"
	"strings"
	"sync"
	"time"
)

type SolverSpec struct {
	Name string
	Cmd  func(file string, timeoutSec int) []string
}

var solvers = []SolverSpec{
	{"z3-5.1", func(f string, t int) []string { return []string{"z3-new", fmt.Sprintf("-T:%d", t), f} }},
	{"z3-4.8", func(f string, t int) []string { return []string{"z3", fmt.Sprintf("-T:%d", t), f} }},
	{"cvc5-1.0", func(f string, t int) []string {
		return []string{"cvc5", fmt.Sprintf("--tlimit=%d", t*1000), "--produce-models", f}
	}},
}

type SolveResult struct {
	Status  string // proved | refuted | unknown
	Solver  string
	Ms      int64
	Model   map[string]string
	Outputs map[string]string // per-solver first lines
	File    string
	Queries int
}

func (vc *VC) script(o *Obl, extra *Term, goal *Term, withModel bool) string {
	var sb strings.Builder
	sb.WriteString("(set-option :produce-models true)\n(set-logic ALL)\n(declare-sort U 0)\n")
	for _, it := range vc.items[:o.N] {
		switch it.Kind {
		case "decl":
			fmt.Fprintf(&sb, "(declare-const %s %s)\n", it.Name, it.Sort)
		case "def":
			fmt.Fprintf(&sb, "(define-fun %s () %s %s)\n", it.Name, it.Sort, it.Term)
		case "assume":
			fmt.Fprintf(&sb, "(assert %s)\n", it.Term)
		case "declfun", "raw":
			if it.Raw != "" {
				sb.WriteString(it.Raw + "\n")
			}
		}
	}
	if extra != nil {
		fmt.Fprintf(&sb, "(assert %s)\n", extra)
	}
	fmt.Fprintf(&sb, "(assert (not %s))\n(check-sat)\n", goal)
	if withModel && len(vc.inputSyms) > 0 {
		sb.WriteString("(get-value (")
		seen := map[string]bool{}
		for _, is := range vc.inputSyms {
			if s, ok := vc.declared[is.Sym]; ok && !strings.HasPrefix(s, "(Array") && !seen[is.Sym] {
				sb.WriteString(is.Sym + " ")
				seen[is.Sym] = true
			}
		}
		// values of *big.Int inputs
		if _, ok := vc.declared[quoteSym("H0.Big.val")]; ok {
			for _, is := range vc.inputSyms {
				if is.BigInt {
					fmt.Fprintf(&sb, "(select H0.Big.val %s) ", is.Sym)
				}
			}
		}
		// leading bytes of byte-slice inputs (for replay)
		if _, ok := vc.declared[quoteSym("H0.Mem.u8")]; ok {
			for _, is := range vc.inputSyms {
				if is.Path == ".arr" && is.ByteSlice {
					for k := 0; k < modelBytes; k++ {
						sb.WriteString(byteTerm(vc.mode, is.Param, k) + " ")
					}
				}
			}
		}
		sb.WriteString("))\n")
	}
	return sb.String()
}

// runQuery races the solvers on one script.
func runQuery(dir, base, script string, timeoutSec int, seed int) (status, solver string, ms int64, outs map[string]string, modelTxt string) {
	file := filepath.Join(dir, base+".smt2")
	os.WriteFile(file, []byte(script), 0o644)
	ctx, cancel := context.WithTimeout(context.Background(), time.Duration(timeoutSec+2)*time.Second)
	defer cancel()
	type ans struct {
		solver string
		out    string
		ms     int64
	}
	type job struct {
		name string
		args []string
	}
	var jobs []job
	for _, s := range solvers {
		jobs = append(jobs, job{s.Name, s.Cmd(file, timeoutSec)})
	}
	// recursive spec functions: also race the define-fun-rec encoding (z3 only; cvc5 prefers the axioms)
	if alt, ok := recVariant(script); ok {
		file2 := filepath.Join(dir, base+".rec.smt2")
		os.WriteFile(file2, []byte(alt), 0o644)
		jobs = append(jobs, job{"z3-5.1/rec", solvers[0].Cmd(file2, timeoutSec)}, job{"z3-4.8/rec", solvers[1].Cmd(file2, timeoutSec)})
	}
	ch := make(chan ans, len(jobs))
	start := time.Now()
	for _, j := range jobs {
		j := j
		go func() {
			cmd := exec.CommandContext(ctx, j.args[0], j.args[1:]...)
			var out bytes.Buffer
			cmd.Stdout = &out
			cmd.Stderr = &out
			cmd.Run()
			ch <- ans{j.name, out.String(), time.Since(start).Milliseconds()}
		}()
	}
	outs = map[string]string{}
	status = "unknown"
	var satAns, unsatAns *ans
	for range jobs {
		a := <-ch
		first := ""
		for _, l := range strings.Split(a.out, "\n") {
			l = strings.TrimSpace(l)
			if l == "" || strings.HasPrefix(l, "WARNING") {
				continue
			}
			first = l
			break
		}
		outs[a.solver] = first
		switch first {
		case "unsat":
			if unsatAns == nil {
				aa := a
				unsatAns = &aa
			}
		case "sat":
			if satAns == nil {
				aa := a
				satAns = &aa
			}
		}
		if unsatAns != nil || satAns != nil {
			// first definitive answer wins; stop the others
			cancel()
			break
		}
	}
	switch {
	case unsatAns != nil:
		return "proved", unsatAns.solver, unsatAns.ms, outs, ""
	case satAns != nil:
		return "refuted", satAns.solver, satAns.ms, outs, satAns.out
	}
	return "unknown", "", time.Since(start).Milliseconds(), outs, ""
}

func parseModel(txt string) map[string]string {
	// ((a 1) (b (- 2)) (c true) (d #x00...))
	m := map[string]string{}
	i := strings.Index(txt, "((")
	if i < 0 {
		return m
	}
	s := txt[i+1:]
	for {
		s = strings.TrimLeft(s, " \n\t")
		if !strings.HasPrefix(s, "(") {
			break
		}
		// find matching paren
		depth := 0
		end := -1
		inBar := false
		for j := 0; j < len(s); j++ {
			switch {
			case s[j] == '|':
				inBar = !inBar
			case inBar:
			case s[j] == '(':
				depth++
			case s[j] == ')':
				depth--
				if depth == 0 {
					end = j
				}
			}
			if end >= 0 {
				break
			}
		}
		if end < 0 {
			break
		}
		body := s[1:end]
		s = s[end+1:]
		var name, val string
		if strings.HasPrefix(body, "|") {
			k := strings.Index(body[1:], "|") + 2
			name, val = body[:k], strings.TrimSpace(body[k:])
		} else if strings.HasPrefix(body, "(") {
			// compound term key
			d, k := 0, -1
			for j := 0; j < len(body); j++ {
				if body[j] == '(' {
					d++
				} else if body[j] == ')' {
					d--
					if d == 0 {
						k = j + 1
						break
					}
				}
			}
			if k < 0 {
				continue
			}
			name, val = strings.Join(strings.Fields(body[:k]), " "), strings.TrimSpace(body[k:])
		} else {
			k := strings.IndexAny(body, " \n")
			if k < 0 {
				continue
			}
			name, val = body[:k], strings.TrimSpace(body[k:])
		}
		m[name] = val
	}
	return m
}

func (o *Obl) solve(dir string, timeoutSec int, seed int) *SolveResult {
	vc := o.VC
	safe := strings.NewReplacer("/", "_", "#", "-", "*", "", "(", "", ")", "", "$", "_", "@", "_").Replace(o.Name)
	res := &SolveResult{Outputs: map[string]string{}}
	if o.Expect == "sat" {
		st, solver, ms, outs, _ := runQuery(dir, safe, vc.script(o, nil, o.Goal, false), min(timeoutSec, 4), seed)
		res.Ms, res.Solver, res.Outputs, res.Queries = ms, solver, outs, 1
		res.File = filepath.Join(dir, safe+".smt2")
		// for a cover query "refuted" (sat) is the good outcome
		switch st {
		case "refuted":
			res.Status = "proved"
		case "proved":
			res.Status = "refuted" // vacuous
		default:
			res.Status = "proved" // inconclusive cover: not evidence of vacuity
			res.Outputs["note"] = "cover inconclusive"
		}
		return res
	}
	if len(o.Splits) == 0 {
		st, solver, ms, outs, model := runQuery(dir, safe, vc.script(o, nil, o.Goal, true), timeoutSec, seed)
		res.Status, res.Solver, res.Ms, res.Outputs, res.Queries = st, solver, ms, outs, 1
		res.File = filepath.Join(dir, safe+".smt2")
		if st == "refuted" {
			res.Model = parseModel(model)
		}
		return res
	}
	// case split: one query per case plus coverage
	type part struct {
		st, solver string
		ms         int64
		outs       map[string]string
		model      string
		file       string
	}
	parts := make([]part, len(o.Splits)+1)
	var wg sync.WaitGroup
	sem := make(chan struct{}, 4)
	for k := range parts {
		k := k
		wg.Add(1)
		go func() {
			defer wg.Done()
			sem <- struct{}{}
			defer func() { <-sem }()
			var script string
			base := fmt.Sprintf("%s.case%d", safe, k)
			if k < len(o.Splits) {
				script = vc.script(o, o.Splits[k], o.Goal, true)
			} else {
				base = safe + ".coverage"
				script = vc.script(o, nil, Or(append([]*Term{o.Goal}, o.Splits...)...), true)
			}
			st, solver, ms, outs, model := runQuery(dir, base, script, timeoutSec, seed)
			parts[k] = part{st, solver, ms, outs, model, filepath.Join(dir, base+".smt2")}
		}()
	}
	wg.Wait()
	res.Status = "proved"
	res.Queries = len(parts)
	for k, p := range parts {
		res.Ms += p.ms
		if p.st != "proved" && res.Status == "proved" {
			res.Status = p.st
			res.Solver = p.solver
			res.File = p.file
			res.Outputs = p.outs
			res.Outputs["case"] = fmt.Sprint(k)
			if p.st == "refuted" {
				res.Model = parseModel(p.model)
			}
		}
	}
	if res.Status == "proved" {
		res.Solver = parts[0].solver
		res.File = parts[0].file
		res.Outputs = parts[0].outs
	}
	return res
}

const modelBytes = 40

// byteTerm is the SMT term for byte k of a byte-slice parameter in the initial heap.
func byteTerm(m Mode, param string, k int) string {
	arr, off := quoteSym(param+".arr"), quoteSym(param+".off")
	if m == ModeBV {
		return fmt.Sprintf("(select (select H0.Mem.u8 %s) (bvadd %s (_ bv%d 64)))", arr, off, k)
	}
	return fmt.Sprintf("(select (select H0.Mem.u8 %s) (+ %s %d))", arr, off, k)
}
