package main

// math/big.Int as mathematical integers: a *big.Int is a reference r, its value is Big.val[r].
// Exact (big.Int is unbounded).  Assumed contracts of the standard library (listed as assumptions).

import (
	"fmt"
	"go/token"
	"go/types"

	"golang.org/x/tools/go/ssa"
)

const bigComp = "Big.val"

func (x *Exec) bigHeap(st *State) *Term { return x.comp(st, bigComp, SArr(refSort, SInt)) }

func (x *Exec) bigVal(st *State, v Value) *Term {
	if v.K != KPtr {
		unsupported("big.Int operand is not a pointer")
	}
	return Select(x.bigHeap(st), v.Loc.Root)
}

func (x *Exec) bigSet(st *State, v Value, val *Term) {
	st.H[bigComp] = Store(x.bigHeap(st), v.Loc.Root, val)
}

func (x *Exec) bigNonNil(fr *Frame, st *State, v Value, pos token.Pos, what string) {
	x.check(fr, st, "nil", Not(Eq(v.Loc.Root, nilRef)), pos, "nil *big.Int "+what)
}

// pow2Term is 2^n for a symbolic non-negative n (recursive definition shared with contracts).
func (x *Exec) pow2Term(n *Term) *Term {
	if c, ok := litValue(n); ok && c.IsInt64() && c.Int64() >= 0 && c.Int64() <= 4096 {
		return IntLitBig(pow2(int(c.Int64())))
	}
	x.vc.needPow2()
	return App("pow2", SInt, n)
}

func (vc *VC) needPow2() {
	if vc.specsUsed["pow2"] {
		return
	}
	vc.specsUsed["pow2"] = true
	vc.items = append(vc.items, Item{Kind: "raw", Name: "pow2", Raw: pow2Def})
}

func (vc *VC) needByteLen() {
	if vc.specsUsed["bytelen"] {
		return
	}
	vc.specsUsed["bytelen"] = true
	vc.items = append(vc.items, Item{Kind: "raw", Name: "bytelen", Raw: bytelenDef})
}

func iAbs(t *Term) *Term { return Ite(iGe(t, IntLit(0)), t, iNeg(t)) }

func (x *Exec) newBig(fr *Frame, st *State, ptrT types.Type, val *Term, hint string) Value {
	pt := ptrT.Underlying().(*types.Pointer).Elem()
	r := x.newRef(st, fmt.Sprintf("f%d.%s", fr.id, hint))
	v := Value{T: ptrT, K: KPtr, Loc: &Loc{Prefix: canonPrefix(pt), Root: r, T: pt}}
	x.bigSet(st, v, val)
	return v
}

func init() {
	bigW := func() ModSet { ms := newModSet(); ms.prefixes[bigComp] = true; return ms }
	bigA := func() ModSet { ms := newModSet(); ms.prefixes[bigComp] = true; ms.allocs = true; return ms }
	reg := func(name string, eff func() ModSet, f stubFn) {
		stubs[name] = f
		if eff != nil {
			stubEffectTable[name] = eff
		}
	}
	reg("math/big.NewInt", bigA, func(x *Exec, fr *Frame, st *State, callee *ssa.Function, args []Value, pos token.Pos) Value {
		if x.m() != ModeInt {
			unsupported("math/big in mode bv")
		}
		return x.newBig(fr, st, callee.Signature.Results().At(0).Type(), args[0].X, "bigNew")
	})
	// z.Op(x, y) family: sets z, returns z
	bin := func(name string, f func(x *Exec, fr *Frame, st *State, a, b *Term, pos token.Pos) *Term) {
		reg("(*math/big.Int)."+name, bigW, func(x *Exec, fr *Frame, st *State, callee *ssa.Function, args []Value, pos token.Pos) Value {
			x.bigNonNil(fr, st, args[0], pos, "receiver")
			x.bigNonNil(fr, st, args[1], pos, "operand")
			x.bigNonNil(fr, st, args[2], pos, "operand")
			r := f(x, fr, st, x.bigVal(st, args[1]), x.bigVal(st, args[2]), pos)
			x.bigSet(st, args[0], x.vc.define(fmt.Sprintf("f%d.big%s", fr.id, name), r))
			return args[0]
		})
	}
	bin("Add", func(x *Exec, fr *Frame, st *State, a, b *Term, pos token.Pos) *Term { return iAdd(a, b) })
	bin("Sub", func(x *Exec, fr *Frame, st *State, a, b *Term, pos token.Pos) *Term { return iSub(a, b) })
	bin("Mul", func(x *Exec, fr *Frame, st *State, a, b *Term, pos token.Pos) *Term { return iMul(a, b) })
	// Div is Euclidean division (SMT-LIB div); Quo truncates
	bin("Div", func(x *Exec, fr *Frame, st *State, a, b *Term, pos token.Pos) *Term {
		x.check(fr, st, "div", Not(Eq(b, IntLit(0))), pos, "big.Int division by zero")
		return App("div", SInt, a, b)
	})
	bin("Quo", func(x *Exec, fr *Frame, st *State, a, b *Term, pos token.Pos) *Term {
		x.check(fr, st, "div", Not(Eq(b, IntLit(0))), pos, "big.Int division by zero")
		return truncDiv(a, b, IntTy{64, true})
	})
	bin("Mod", func(x *Exec, fr *Frame, st *State, a, b *Term, pos token.Pos) *Term {
		x.check(fr, st, "div", Not(Eq(b, IntLit(0))), pos, "big.Int modulus zero")
		return App("mod", SInt, a, b)
	})
	un := func(name string, f func(a *Term) *Term) {
		reg("(*math/big.Int)."+name, bigW, func(x *Exec, fr *Frame, st *State, callee *ssa.Function, args []Value, pos token.Pos) Value {
			x.bigNonNil(fr, st, args[0], pos, "receiver")
			x.bigNonNil(fr, st, args[1], pos, "operand")
			x.bigSet(st, args[0], f(x.bigVal(st, args[1])))
			return args[0]
		})
	}
	un("Set", func(a *Term) *Term { return a })
	un("Neg", func(a *Term) *Term { return iNeg(a) })
	un("Abs", func(a *Term) *Term { return iAbs(a) })
	shift := func(name string, left bool) {
		reg("(*math/big.Int)."+name, bigW, func(x *Exec, fr *Frame, st *State, callee *ssa.Function, args []Value, pos token.Pos) Value {
			x.bigNonNil(fr, st, args[0], pos, "receiver")
			x.bigNonNil(fr, st, args[1], pos, "operand")
			a := x.bigVal(st, args[1])
			p := x.pow2Term(args[2].X)
			var r *Term
			if left {
				r = iMul(a, p)
			} else {
				r = App("div", SInt, a, p) // floor: two's-complement shift of negative values
			}
			x.bigSet(st, args[0], x.vc.define(fmt.Sprintf("f%d.big%s", fr.id, name), r))
			return args[0]
		})
	}
	shift("Lsh", true)
	shift("Rsh", false)
	reg("(*math/big.Int).SetInt64", bigW, func(x *Exec, fr *Frame, st *State, callee *ssa.Function, args []Value, pos token.Pos) Value {
		x.bigNonNil(fr, st, args[0], pos, "receiver")
		x.bigSet(st, args[0], args[1].X)
		return args[0]
	})
	reg("(*math/big.Int).SetUint64", bigW, stubs["(*math/big.Int).SetInt64"])
	reg("(*math/big.Int).Sign", newModSet, func(x *Exec, fr *Frame, st *State, callee *ssa.Function, args []Value, pos token.Pos) Value {
		x.bigNonNil(fr, st, args[0], pos, "receiver")
		a := x.bigVal(st, args[0])
		return Value{K: KScalar, T: types.Typ[types.Int], X: Ite(iLt(a, IntLit(0)), IntLit(-1), Ite(iGt(a, IntLit(0)), IntLit(1), IntLit(0)))}
	})
	reg("(*math/big.Int).Cmp", newModSet, func(x *Exec, fr *Frame, st *State, callee *ssa.Function, args []Value, pos token.Pos) Value {
		x.bigNonNil(fr, st, args[0], pos, "receiver")
		x.bigNonNil(fr, st, args[1], pos, "operand")
		a, b := x.bigVal(st, args[0]), x.bigVal(st, args[1])
		return Value{K: KScalar, T: types.Typ[types.Int], X: Ite(iLt(a, b), IntLit(-1), Ite(iGt(a, b), IntLit(1), IntLit(0)))}
	})
	reg("(*math/big.Int).Int64", newModSet, func(x *Exec, fr *Frame, st *State, callee *ssa.Function, args []Value, pos token.Pos) Value {
		x.bigNonNil(fr, st, args[0], pos, "receiver")
		return Value{K: KScalar, T: types.Typ[types.Int64], X: wrapFull(x.bigVal(st, args[0]), IntTy{64, true})}
	})
	reg("(*math/big.Int).Uint64", newModSet, func(x *Exec, fr *Frame, st *State, callee *ssa.Function, args []Value, pos token.Pos) Value {
		x.bigNonNil(fr, st, args[0], pos, "receiver")
		return Value{K: KScalar, T: types.Typ[types.Uint64], X: wrapFull(x.bigVal(st, args[0]), IntTy{64, false})}
	})
	reg("(*math/big.Int).IsInt64", newModSet, func(x *Exec, fr *Frame, st *State, callee *ssa.Function, args []Value, pos token.Pos) Value {
		a := x.bigVal(st, args[0])
		it := IntTy{64, true}
		return Value{K: KScalar, X: And(iLe(IntLitBig(it.min()), a), iLe(a, IntLitBig(it.max())))}
	})
	// Bytes(): big-endian magnitude, minimal length
	reg("(*math/big.Int).Bytes", func() ModSet { ms := newModSet(); ms.allocs = true; return ms }, func(x *Exec, fr *Frame, st *State, callee *ssa.Function, args []Value, pos token.Pos) Value {
		x.bigNonNil(fr, st, args[0], pos, "receiver")
		x.vc.needByteLen()
		a := iAbs(x.bigVal(st, args[0]))
		n := x.vc.define(fmt.Sprintf("f%d.bigBytesLen", fr.id), App("bytelen", SInt, a))
		x.vc.assumeOnce(And(iGe(n, IntLit(0)), iLe(n, IntLitBig(pow2(40)))))
		e := types.Typ[types.Uint8]
		r := x.newRef(st, fmt.Sprintf("f%d.bigBytes", fr.id))
		loc := &Loc{Prefix: "Mem." + typeKey(e), Root: r, T: e}
		// contents: byte k (from the left) = (a div 256^(n-1-k)) mod 256
		c := x.comp(st, loc.Prefix, x.compSortFor(SInt, 1))
		arr := x.vc.fresh("bigbytes", SArr(SInt, SInt))
		k := Sym("k!bb", SInt)
		x.vc.needPow2()
		x.vc.assume(Forall([][2]string{{"k!bb", SInt}}, Implies(And(iLe(IntLit(0), k), iLt(k, n)),
			Eq(Select(arr, k), iModE(App("div", SInt, a, App("pow2", SInt, iMul(IntLit(8), iSub(iSub(n, IntLit(1)), k)))), IntLit(256)))), Select(arr, k)))
		st.H[loc.Prefix] = Store(c, r, arr)
		return Value{T: callee.Signature.Results().At(0).Type(), K: KSlice, Loc: loc, Off: IntLit(0), Len: n, Cap: n}
	})
	// Bits(): little-endian words of the magnitude; only word 0 and emptiness are modelled
	reg("(*math/big.Int).Bits", func() ModSet { ms := newModSet(); ms.allocs = true; return ms }, func(x *Exec, fr *Frame, st *State, callee *ssa.Function, args []Value, pos token.Pos) Value {
		x.bigNonNil(fr, st, args[0], pos, "receiver")
		a := iAbs(x.bigVal(st, args[0]))
		rt := callee.Signature.Results().At(0).Type()
		e := rt.Underlying().(*types.Slice).Elem()
		n := x.vc.fresh("bigWords", SInt)
		x.vc.assume(And(iGe(n, IntLit(0)), iLe(n, IntLitBig(pow2(40))), Eq(Eq(n, IntLit(0)), Eq(a, IntLit(0))),
			Implies(iLt(a, IntLitBig(pow2(64))), iLe(n, IntLit(1)))))
		r := x.newRef(st, fmt.Sprintf("f%d.bigBits", fr.id))
		loc := &Loc{Prefix: "Mem." + typeKey(e), Root: r, T: e}
		c := x.comp(st, loc.Prefix, x.compSortFor(SInt, 1))
		arr := x.vc.fresh("bigwords", SArr(SInt, SInt))
		x.vc.assume(Eq(Select(arr, IntLit(0)), iModE(a, IntLitBig(pow2(64)))))
		st.H[loc.Prefix] = Store(c, r, arr)
		return Value{T: rt, K: KSlice, Loc: loc, Off: IntLit(0), Len: n, Cap: n}
	})
	// SetBytes(buf): big-endian value of the bytes
	reg("(*math/big.Int).SetBytes", bigW, func(x *Exec, fr *Frame, st *State, callee *ssa.Function, args []Value, pos token.Pos) Value {
		x.bigNonNil(fr, st, args[0], pos, "receiver")
		b := args[1]
		x.vc.needBEVal()
		var arr *Term
		if b.K == KSlice {
			c := x.comp(st, b.Loc.Prefix, x.compSortFor(SInt, len(b.Loc.Elems)+1))
			arr = nestedSelect(c, b.Loc.indices())
		} else {
			unsupported("SetBytes of non-slice")
		}
		v := App("beval", SInt, arr, b.Off, x.ixAdd(b.Off, b.Len))
		x.bigSet(st, args[0], x.vc.define(fmt.Sprintf("f%d.bigSetBytes", fr.id), v))
		return args[0]
	})
	reg("(*math/big.Int).BitLen", newModSet, func(x *Exec, fr *Frame, st *State, callee *ssa.Function, args []Value, pos token.Pos) Value {
		a := iAbs(x.bigVal(st, args[0]))
		n := x.vc.fresh("bitlen", SInt)
		x.vc.needPow2()
		x.vc.assume(And(iGe(n, IntLit(0)), Eq(Eq(n, IntLit(0)), Eq(a, IntLit(0))),
			Implies(iGt(n, IntLit(0)), And(iLe(App("pow2", SInt, iSub(n, IntLit(1))), a), iLt(a, App("pow2", SInt, n))))))
		return Value{K: KScalar, T: types.Typ[types.Int], X: n}
	})
}

func (vc *VC) needBEVal() {
	if vc.specsUsed["beval"] {
		return
	}
	vc.specsUsed["beval"] = true
	// big-endian value of a[p..end)
	vc.items = append(vc.items, Item{Kind: "raw", Name: "beval", Raw: bevalDef})
}
