package main

// Automatically derived loop invariants for counting loops. They are not trusted: each is emitted as a checked
// obligation (inv.k.auto) on every back edge, exactly like a user invariant.
//
// Two syntactic patterns of go/ssa are recognised, for an integer header phi P with one entry value v0 and
// back-edge value P+1:
//   classic  for P := v0; P < N; P++      (header tests P < N)      candidate  P >= v0   [and P <= N | P == v0 when N is loop-invariant]
//   range    for P = range X              (header tests P+1 < N)    candidate  P >= v0 && (P == v0 || P < N)

import (
	"fmt"
	"go/token"

	"golang.org/x/tools/go/ssa"
)

type autoInv struct {
	phi     *ssa.Phi
	v0      *Term
	n       ssa.Value // loop-invariant bound (nil: none)
	isRange bool
	it      IntTy
	ord     int
}

func (x *Exec) findAutoInvs(fr *Frame, li *LoopInfo, entryVals map[*ssa.Phi]Value) []*autoInv {
	var out []*autoInv
	h := li.Header
	iff, ok := h.Instrs[len(h.Instrs)-1].(*ssa.If)
	if !ok || len(h.Succs) != 2 || !li.Body[h.Succs[0]] || li.Body[h.Succs[1]] {
		return nil
	}
	cond, ok := iff.Cond.(*ssa.BinOp)
	if !ok || cond.Op != token.LSS {
		return nil
	}
	for _, ins := range h.Instrs {
		phi, ok := ins.(*ssa.Phi)
		if !ok {
			break
		}
		it, ok := intTyOf(phi.Type())
		if !ok {
			continue
		}
		ev, ok := entryVals[phi]
		if !ok || ev.K != KScalar || ev.X == nil {
			continue
		}
		good := true
		nEntry := 0
		var step *ssa.BinOp
		for i, p := range h.Preds {
			if !isBackEdge(p, h) {
				nEntry++
				continue
			}
			b, ok := phi.Edges[i].(*ssa.BinOp)
			if !ok || b.Op != token.ADD || b.X != ssa.Value(phi) {
				good = false
				break
			}
			c, ok := b.Y.(*ssa.Const)
			if !ok || c.Value == nil || c.Int64() != 1 {
				good = false
				break
			}
			if step != nil && step != b {
				good = false
				break
			}
			step = b
		}
		if !good || nEntry != 1 || step == nil {
			continue
		}
		a := &autoInv{phi: phi, v0: ev.X, it: it, ord: li.Ordinal}
		switch {
		case cond.X == ssa.Value(phi):
			// classic
		case cond.X == ssa.Value(step) && step.Block() == h:
			a.isRange = true
		default:
			continue
		}
		if x.loopInvariantValue(li, cond.Y) {
			a.n = cond.Y
		} else if a.isRange {
			continue
		}
		out = append(out, a)
	}
	return out
}

func (x *Exec) loopInvariantValue(li *LoopInfo, v ssa.Value) bool {
	switch t := v.(type) {
	case *ssa.Const, *ssa.Parameter, *ssa.FreeVar:
		return true
	case ssa.Instruction:
		return !li.Body[t.Block()] && t.Block() != li.Header
	}
	return false
}

func (a *autoInv) term(x *Exec, fr *Frame, st *State) *Term {
	m := x.m()
	p := fr.env[a.phi].X
	ge := m.cmp(token.GEQ, p, a.v0, a.it)
	if it := fr.iter[a.ord]; it != nil && m == ModeInt {
		// the counter is its start plus the number of completed iterations
		ge = And(ge, Eq(p, iAdd(a.v0, it)))
	}
	if a.n == nil {
		return ge
	}
	nv := x.get(fr, st, a.n).X
	op := token.LEQ
	if a.isRange {
		op = token.LSS
	}
	return And(ge, Or(Eq(p, a.v0), m.cmp(op, p, nv, a.it)))
}

func (a *autoInv) describe() string {
	if a.isRange {
		return fmt.Sprintf("derived (range loop): %s stays between its start and the bound", a.phi.Comment)
	}
	return fmt.Sprintf("derived (counting loop): %s never drops below its start", a.phi.Comment)
}
