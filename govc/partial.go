package main

// Partial mode ("//@ partial"): for functions too large for the subset. A path that reaches an instruction
// the engine cannot model is abandoned at that instruction: obligations generated before it stand, nothing
// after it is checked on that path, and the place and reason are listed in the evidence as unchecked.
// Loops without an invariant get the trivial one (everything they may write is havocked).

import (
	"fmt"
	"go/types"
	"os"
	"sort"
	"strconv"
	"strings"

	"golang.org/x/tools/go/ssa"
)

func (x *Exec) execInstrPartial(fr *Frame, b *ssa.BasicBlock, ins ssa.Instruction, st *State) (abandoned bool) {
	depth := len(x.inlineStack)
	sdepth := len(x.vc.sideStack)
	defer func() {
		if r := recover(); r != nil {
			ee, ok := r.(engineErr)
			if !ok {
				panic(r)
			}
			x.inlineStack = x.inlineStack[:depth]
			x.vc.sideStack = x.vc.sideStack[:sdepth]
			x.note(fmt.Sprintf("abstracted (partial mode): path abandoned at %s (%s): %s; nothing after it is checked on this path", x.posOf(fr.fn, ins.Pos()), ins.String(), ee.msg))
			abandoned = true
		}
	}()
	if call, ok := ins.(*ssa.Call); ok && len(fr.fc.StopBefore) > 0 {
		name := ""
		if callee := call.Common().StaticCallee(); callee != nil {
			name = contractKey(callee)
		} else if call.Common().IsInvoke() {
			name = call.Common().Method.Name()
		}
		for _, sb := range fr.fc.StopBefore {
			if name != "" && matchCallee(name, sb) {
				x.callsiteAsserts(fr, st, call.Common(), call)
				x.note(fmt.Sprintf("abstracted (partial mode): by contract (stopbefore %s) the call at %s and everything after it are not executed or checked", sb, x.posOf(fr.fn, ins.Pos())))
				return true
			}
		}
	}
	x.execInstr(fr, b, ins, st)
	if call, ok := ins.(*ssa.Call); ok && len(fr.fc.StopAfter) > 0 {
		name := ""
		if callee := call.Common().StaticCallee(); callee != nil {
			name = contractKey(callee)
		} else if call.Common().IsInvoke() {
			name = call.Common().Method.Name()
		}
		for _, sa := range fr.fc.StopAfter {
			if name != "" && matchCallee(name, sa) {
				x.note(fmt.Sprintf("abstracted (partial mode): by contract (stopafter %s) nothing after %s is executed or checked", sa, x.posOf(fr.fn, ins.Pos())))
				return true
			}
		}
	}
	return false
}

func matchCallee(name, short string) bool {
	return short == name || len(name) > len(short) && name[len(name)-len(short)-1] == '.' && name[len(name)-len(short):] == short
}

// callsiteAsserts emits the caller's "callsite <callee> assert e" obligations for one call instruction.
func (x *Exec) callsiteAsserts(fr *Frame, st *State, c *ssa.CallCommon, site *ssa.Call) {
	if fr.fc == nil || len(fr.fc.CallSites) == 0 || site == nil {
		return
	}
	name := ""
	if callee := c.StaticCallee(); callee != nil {
		name = contractKey(callee)
	} else if c.IsInvoke() {
		name = c.Method.Name()
	} else if n := dynCallFieldName(c.Value); n != "" {
		// a call through a function-typed struct field (op.opfunc(...)) is named by the field
		name = n
	}
	if name == "" {
		return
	}
	var args []Value
	haveArgs := false
	for _, cs := range fr.fc.CallSites {
		want, ord := cs.Callee, 0
		if i := strings.Index(want, "#"); i > 0 {
			ord, _ = strconv.Atoi(want[i+1:])
			want = want[:i]
		}
		if !matchCallee(name, want) {
			continue
		}
		if ord > 0 && x.callOrdinal(fr.fn, site, want) != ord {
			continue
		}
		if !haveArgs {
			if c.IsInvoke() {
				args = append(args, x.get(fr, st, c.Value))
			}
			for _, a := range c.Args {
				args = append(args, x.get(fr, st, a))
			}
			haveArgs = true
		}
		blk := site.Block()
		idx := 0
		for k, i := range blk.Instrs {
			if i == ssa.Instruction(site) {
				idx = k
			}
		}
		env := &CEnv{x: x, fr: fr, st: st, old: &fr.entry, pkg: fr.pkg, mode: x.m(), vars: map[string]Value{}, ghostsOK: fr == fr.top, goal: true}
		for k, a := range args {
			env.vars[fmt.Sprintf("arg%d", k)] = a
		}
		env.lookup = func(n string) (Value, bool) { return x.lookupLocalAt(fr, blk, idx, st, n) }
		if cs.IsUse {
			// a lemma instance made available at this point (the lemma itself is proved separately)
			env.goal = false
			x.vc.assume(Implies(st.Reach, x.lemmaInstance(env, cs.Clause)))
			continue
		}
		tag := cs.Tag
		if tag == "" {
			tag = cs.Callee
		}
		if cs.IsReach {
			// the call must be reachable in a state where e holds (a path the code must keep open)
			env.goal = false
			g := env.evalBool(cs.Clause.Expr)
			x.vc.obls = append(x.vc.obls, &Obl{Name: x.vc.fnName + "#callsite." + tag + ".reach", Kind: "cover", Goal: Not(And(st.Reach, g)), N: len(x.vc.items),
				Desc: "the call of " + cs.Callee + " is reachable with: " + cs.Clause.Src, Fn: x.vc.fnName, VC: x.vc, Expect: "sat", Pos: x.posOf(fr.fn, site.Pos()), Clause: cs.Clause.Src})
			continue
		}
		g, evalErr := safeEvalBool(env, cs.Clause.Expr)
		if evalErr != "" {
			// a clause that cannot be evaluated where it is supposed to hold fails; it is not skipped
			g = TFalse
			o := x.vc.oblige("callsite."+tag, Implies(st.Reach, g), x.posOf(fr.fn, site.Pos()), fmt.Sprintf("at the call of %s the clause cannot be evaluated (%s): %s", cs.Callee, evalErr, cs.Clause.Src))
			o.Clause = cs.Clause.Src
			continue
		}
		if cs.IsNever {
			o := x.vc.oblige("callsite."+tag, Not(st.Reach), x.posOf(fr.fn, site.Pos()), fmt.Sprintf("the function never calls %s", cs.Callee))
			o.Clause = cs.Clause.Src
			continue
		}
		o := x.vc.oblige("callsite."+tag, Implies(st.Reach, g), x.posOf(fr.fn, site.Pos()), fmt.Sprintf("at the call of %s: %s", cs.Callee, cs.Clause.Src))
		o.Clause = cs.Clause.Src
		// vacuity guard: the call must be reachable under the preconditions
		x.vc.obls = append(x.vc.obls, &Obl{Name: strings.Replace(o.Name, "#callsite.", "#cover.callsite.", 1), Kind: "cover", Goal: Not(st.Reach), N: len(x.vc.items),
			Desc: "the call of " + cs.Callee + " carrying assertion " + tag + " is reachable (otherwise the assertion is vacuous)", Fn: x.vc.fnName, VC: x.vc, Expect: "sat", Pos: x.posOf(fr.fn, site.Pos())})
	}
}

// callOrdinal numbers the calls of one callee inside fn in source order (1-based).
func (x *Exec) callOrdinal(fn *ssa.Function, site *ssa.Call, want string) int {
	var sites []*ssa.Call
	for _, b := range fn.Blocks {
		for _, ins := range b.Instrs {
			call, ok := ins.(*ssa.Call)
			if !ok {
				continue
			}
			name := ""
			if callee := call.Common().StaticCallee(); callee != nil {
				name = contractKey(callee)
			} else if call.Common().IsInvoke() {
				name = call.Common().Method.Name()
			}
			if name != "" && matchCallee(name, want) {
				sites = append(sites, call)
			}
		}
	}
	sort.Slice(sites, func(i, j int) bool { return sites[i].Pos() < sites[j].Pos() })
	for k, s := range sites {
		if s == site {
			return k + 1
		}
	}
	return 0
}

var srcLineCache = map[string][]string{}

// sourceLine returns the text of the source line an obligation position ("file:line:col") refers to.
func sourceLine(pos string) string {
	parts := strings.Split(pos, ":")
	if len(parts) < 2 {
		return ""
	}
	file := parts[0]
	ln, err := strconv.Atoi(parts[1])
	if err != nil {
		return ""
	}
	lines, ok := srcLineCache[file]
	if !ok {
		b, err := os.ReadFile(file)
		if err != nil {
			return ""
		}
		lines = strings.Split(string(b), "\n")
		srcLineCache[file] = lines
	}
	if ln < 1 || ln > len(lines) {
		return ""
	}
	return lines[ln-1]
}

// isCapturedCell: the free variable is the address of a variable (an Alloc) of the enclosing function.
func isCapturedCell(parent *ssa.Function, fv *ssa.FreeVar) bool {
	for _, l := range parent.Locals {
		if l.Comment == fv.Name() && types.Identical(l.Type(), fv.Type()) {
			return true
		}
	}
	for _, b := range parent.Blocks {
		for _, ins := range b.Instrs {
			if l, ok := ins.(*ssa.Alloc); ok && l.Comment == fv.Name() && types.Identical(l.Type(), fv.Type()) {
				return true
			}
		}
	}
	// parameters of the enclosing function captured by a closure are spilled into cells as well
	for _, p := range parent.Params {
		if p.Name() == fv.Name() {
			if pt, ok := fv.Type().(*types.Pointer); ok && types.Identical(pt.Elem(), p.Type()) {
				return true
			}
		}
	}
	return false
}

// dynCallFieldName: for a call whose function value is loaded from a struct field, the field's name.
func dynCallFieldName(v ssa.Value) string {
	switch u := v.(type) {
	case *ssa.UnOp:
		if fa, ok := u.X.(*ssa.FieldAddr); ok {
			if pt, ok := fa.X.Type().Underlying().(*types.Pointer); ok {
				if st, ok := pt.Elem().Underlying().(*types.Struct); ok {
					return st.Field(fa.Field).Name()
				}
			}
		}
	case *ssa.Field:
		if st, ok := u.X.Type().Underlying().(*types.Struct); ok {
			return st.Field(u.Field).Name()
		}
	}
	return ""
}

// returnAsserts: "callsite return assert [tag] e" - e must hold, over the source-level locals, at every
// return statement that reports success (its last result is the constant nil, or the function has no
// error result). This is how a clause about local accumulators is tied to the accepting exits.
func (x *Exec) returnAsserts(fr *Frame, st *State, ret *ssa.Return) {
	if fr.fc == nil || len(fr.fc.CallSites) == 0 {
		return
	}
	n := len(ret.Results)
	success := TTrue
	failure := TFalse // "callsite failure assert e": e must hold at every return that reports an error
	if n > 0 {
		last := ret.Results[n-1]
		if types.Identical(last.Type(), types.Universe.Lookup("error").Type()) {
			if c, ok := last.(*ssa.Const); ok {
				if !c.IsNil() {
					success, failure = TFalse, TTrue
				}
			} else {
				// (functions with defers return their results through temporaries)
				lv := x.get(fr, st, last)
				if lv.K != KIface || lv.X == nil {
					return
				}
				success = Eq(lv.X, nilRef)
				failure = Not(success)
			}
		}
	}
	blk := ret.Block()
	idx := len(blk.Instrs) - 1
	for _, cs := range fr.fc.CallSites {
		if cs.IsUse {
			continue
		}
		if cs.Callee == "failure" || strings.HasPrefix(cs.Callee, "failure#") {
			if failure == TFalse {
				continue
			}
			if strings.HasPrefix(cs.Callee, "failure#") {
				k, _ := strconv.Atoi(strings.TrimPrefix(cs.Callee, "failure#"))
				if k <= 0 || returnOrdinal(fr.fn, ret) != k {
					continue
				}
			}
			env := &CEnv{x: x, fr: fr, st: st, old: &fr.entry, pkg: fr.pkg, mode: x.m(), vars: map[string]Value{}, ghostsOK: fr == fr.top, goal: true}
			env.lookup = func(n string) (Value, bool) { return x.lookupLocalAt(fr, blk, idx, st, n) }
			tag := cs.Tag
			if tag == "" {
				tag = "failure"
			}
			g, evalErr := safeEvalBool(env, cs.Clause.Expr)
			if evalErr != "" {
				o := x.vc.oblige("callsite."+tag, Implies(And(st.Reach, failure), TFalse), x.posOf(fr.fn, ret.Pos()), fmt.Sprintf("at a failing return the clause cannot be evaluated (%s): %s", evalErr, cs.Clause.Src))
				o.Clause = cs.Clause.Src
				continue
			}
			o := x.vc.oblige("callsite."+tag, Implies(And(st.Reach, failure), g), x.posOf(fr.fn, ret.Pos()), fmt.Sprintf("at a failing return: %s", cs.Clause.Src))
			o.Clause = cs.Clause.Src
			if cs.Callee != "failure" && !cs.IsGuard {
				// "failure#k" names one return statement: it must be able to report a failure
				x.vc.obls = append(x.vc.obls, &Obl{Name: strings.Replace(o.Name, "#callsite.", "#cover.callsite.", 1), Kind: "cover", Goal: Not(And(st.Reach, failure)), N: len(x.vc.items),
					Desc: "the return statement " + cs.Callee + " carrying assertion " + tag + " can report a failure (otherwise the assertion is vacuous there)", Fn: x.vc.fnName, VC: x.vc, Expect: "sat", Pos: x.posOf(fr.fn, ret.Pos())})
			}
			continue
		}
		if success == TFalse {
			continue
		}
		if cs.Callee != "return" {
			// "return#k": only the k-th return statement of the function in source order
			if !strings.HasPrefix(cs.Callee, "return#") {
				continue
			}
			k, _ := strconv.Atoi(strings.TrimPrefix(cs.Callee, "return#"))
			if k <= 0 || returnOrdinal(fr.fn, ret) != k {
				continue
			}
		}
		env := &CEnv{x: x, fr: fr, st: st, old: &fr.entry, pkg: fr.pkg, mode: x.m(), vars: map[string]Value{}, ghostsOK: fr == fr.top, goal: true}
		env.lookup = func(n string) (Value, bool) { return x.lookupLocalAt(fr, blk, idx, st, n) }
		tag := cs.Tag
		if tag == "" {
			tag = "return"
		}
		if cs.IsReach {
			env.goal = false
			g := env.evalBool(cs.Clause.Expr)
			x.vc.obls = append(x.vc.obls, &Obl{Name: x.vc.fnName + "#callsite." + tag + ".reach", Kind: "cover", Goal: Not(And(st.Reach, success, g)), N: len(x.vc.items),
				Desc: "a successful return is reachable with: " + cs.Clause.Src, Fn: x.vc.fnName, VC: x.vc, Expect: "sat", Pos: x.posOf(fr.fn, ret.Pos()), Clause: cs.Clause.Src})
			continue
		}
		g, evalErr := safeEvalBool(env, cs.Clause.Expr)
		if evalErr != "" {
			// a clause that cannot be evaluated at an accepting exit is a failed obligation, not a skipped one
			o := x.vc.oblige("callsite."+tag, Implies(And(st.Reach, success), TFalse), x.posOf(fr.fn, ret.Pos()), fmt.Sprintf("at a successful return the clause cannot be evaluated (%s): %s", evalErr, cs.Clause.Src))
			o.Clause = cs.Clause.Src
			continue
		}
		o := x.vc.oblige("callsite."+tag, Implies(And(st.Reach, success), g), x.posOf(fr.fn, ret.Pos()), fmt.Sprintf("at a successful return: %s", cs.Clause.Src))
		o.Clause = cs.Clause.Src
		if cs.Callee != "return" && !cs.IsGuard {
			// "return#k" names ONE return statement by its ordinal; if an edit shifts the ordinals onto a return
			// that can only fail, the clause would pass vacuously - so that return must be able to succeed
			x.vc.obls = append(x.vc.obls, &Obl{Name: strings.Replace(o.Name, "#callsite.", "#cover.callsite.", 1), Kind: "cover", Goal: Not(And(st.Reach, success)), N: len(x.vc.items),
				Desc: "the return statement " + cs.Callee + " carrying assertion " + tag + " can report success (otherwise the assertion is vacuous there)", Fn: x.vc.fnName, VC: x.vc, Expect: "sat", Pos: x.posOf(fr.fn, ret.Pos())})
		}
	}
}

// safeEvalBool evaluates a clause, turning an engine error (unknown name, unsupported construct) into a message.
func safeEvalBool(env *CEnv, e *CE) (t *Term, msg string) {
	defer func() {
		if r := recover(); r != nil {
			if ee, ok := r.(engineErr); ok {
				t, msg = nil, ee.msg
				return
			}
			panic(r)
		}
	}()
	return env.evalBool(e), ""
}

// backEdgeAsserts: "callsite backedge#k assert [tag] e" - e must hold at the end of every iteration of
// loop k (on each back edge), over the body's source-level locals; old(x) denotes the value x had at
// the head of that iteration. With a ghost counter bumped by the calls of interest this states "an
// iteration that did not make the call had no reason to".
func (x *Exec) backEdgeAsserts(fr *Frame, li *LoopInfo, from *ssa.BasicBlock, st *State) {
	if fr.fc == nil || len(fr.fc.CallSites) == 0 {
		return
	}
	want := fmt.Sprintf("backedge#%d", li.Ordinal)
	headState, ok := fr.loopHead[li]
	if !ok {
		return
	}
	head := &headState
	idx := len(from.Instrs) - 1
	for _, cs := range fr.fc.CallSites {
		if cs.Callee != want || cs.IsUse || cs.IsReach {
			continue
		}
		env := &CEnv{x: x, fr: fr, st: st, old: head, pkg: fr.pkg, mode: x.m(), vars: map[string]Value{}, ghostsOK: fr == fr.top, goal: true, calleeEnv: true}
		for i, p := range fr.fn.Params {
			if i < len(fr.params) {
				env.vars[p.Name()] = fr.env[p]
			}
		}
		env.lookup = func(n string) (Value, bool) { return x.lookupLocalAt(fr, from, idx, st, n) }
		tag := cs.Tag
		if tag == "" {
			tag = want
		}
		g, evalErr := safeEvalBool(env, cs.Clause.Expr)
		if evalErr != "" {
			o := x.vc.oblige("callsite."+tag, Implies(st.Reach, TFalse), x.loopPos(fr, li), fmt.Sprintf("at the end of an iteration of loop %d the clause cannot be evaluated (%s): %s", li.Ordinal, evalErr, cs.Clause.Src))
			o.Clause = cs.Clause.Src
			continue
		}
		o := x.vc.oblige("callsite."+tag, Implies(st.Reach, g), x.loopPos(fr, li), fmt.Sprintf("at the end of every iteration of loop %d: %s", li.Ordinal, cs.Clause.Src))
		o.Clause = cs.Clause.Src
	}
}

// returnOrdinal numbers the return statements of fn in source order (1-based).
func returnOrdinal(fn *ssa.Function, ret *ssa.Return) int {
	var rs []*ssa.Return
	for _, b := range fn.Blocks {
		for _, ins := range b.Instrs {
			if r, ok := ins.(*ssa.Return); ok {
				rs = append(rs, r)
			}
		}
	}
	sort.Slice(rs, func(i, j int) bool { return rs[i].Pos() < rs[j].Pos() })
	for k, r := range rs {
		if r == ret {
			return k + 1
		}
	}
	return 0
}
