package main

// Compilation of contract expressions to Go, for replaying counterexamples on the real code.
// All integers are *big.Int (exact); supported: arithmetic, comparisons, boolean connectives,
// ternaries, bounded quantifiers, len/indexing of byte slices, result/err, old() of scalar and
// byte-slice parameters, spec functions over integers and booleans, big(), pow2, bytelen, abs, ediv.

import (
	"fmt"
	"go/types"
	"math/big"
	"strings"
)

type goKind int

const (
	gI goKind = iota // *big.Int
	gB               // bool
	gS               // []byte
	gE               // error
	gP               // other pointer / interface (nil comparisons only)
	gSeq             // spec-level byte sequence: seqv{a []byte}
)

type goVar struct {
	code string
	kind goKind
}

type goGen struct {
	vars   map[string]goVar // identifiers in scope
	old    map[string]goVar // snapshots for old()
	pc     *PkgContracts
	uni    *Universe
	pkg    *types.Package
	specs  map[string]string // generated spec functions (name -> source)
	order  []string
	inOld  bool
	nres   int
	resK   []goKind
	err    error
	nq     int
}

type goUnsupported struct{ msg string }

func (g *goGen) fail(f string, a ...any) { panic(goUnsupported{fmt.Sprintf(f, a...)}) }

const goPrelude = `
func gvI(x int64) *big.Int { return big.NewInt(x) }
func gvS(s string) *big.Int { v, _ := new(big.Int).SetString(s, 10); return v }
func gvAny(x interface{}) *big.Int {
	v := reflect.ValueOf(x)
	switch v.Kind() {
	case reflect.Int, reflect.Int8, reflect.Int16, reflect.Int32, reflect.Int64:
		return big.NewInt(v.Int())
	case reflect.Uint, reflect.Uint8, reflect.Uint16, reflect.Uint32, reflect.Uint64, reflect.Uintptr:
		return new(big.Int).SetUint64(v.Uint())
	}
	panic("gvAny: unsupported kind")
}
func gvAdd(a, b *big.Int) *big.Int { return new(big.Int).Add(a, b) }
func gvSub(a, b *big.Int) *big.Int { return new(big.Int).Sub(a, b) }
func gvMul(a, b *big.Int) *big.Int { return new(big.Int).Mul(a, b) }
func gvNeg(a *big.Int) *big.Int    { return new(big.Int).Neg(a) }
func gvQuo(a, b *big.Int) *big.Int { return new(big.Int).Quo(a, b) }
func gvRem(a, b *big.Int) *big.Int { return new(big.Int).Rem(a, b) }
func gvDiv(a, b *big.Int) *big.Int { return new(big.Int).Div(a, b) }
func gvMod(a, b *big.Int) *big.Int { return new(big.Int).Mod(a, b) }
func gvAbs(a *big.Int) *big.Int    { return new(big.Int).Abs(a) }
func gvShl(a, b *big.Int) *big.Int { return new(big.Int).Lsh(a, uint(b.Uint64())) }
func gvShr(a, b *big.Int) *big.Int { return new(big.Int).Rsh(a, uint(b.Uint64())) }
func gvAnd(a, b *big.Int) *big.Int { return new(big.Int).And(a, b) }
func gvOr(a, b *big.Int) *big.Int  { return new(big.Int).Or(a, b) }
func gvXor(a, b *big.Int) *big.Int { return new(big.Int).Xor(a, b) }
func gvAndNot(a, b *big.Int) *big.Int { return new(big.Int).AndNot(a, b) }
func gvWrap(a *big.Int, w uint, signed bool) *big.Int {
	m := new(big.Int).Lsh(big.NewInt(1), w)
	r := new(big.Int).Mod(a, m)
	if signed && r.Cmp(new(big.Int).Lsh(big.NewInt(1), w-1)) >= 0 {
		r.Sub(r, m)
	}
	return r
}
func gvPow2(a *big.Int) *big.Int {
	if a.Sign() <= 0 {
		return big.NewInt(1)
	}
	return new(big.Int).Lsh(big.NewInt(1), uint(a.Uint64()))
}
func gvByteLen(a *big.Int) *big.Int {
	if a.Sign() <= 0 {
		return big.NewInt(0)
	}
	return big.NewInt(int64(len(a.Bytes())))
}
func gvIf(c bool, a, b *big.Int) *big.Int {
	if c {
		return a
	}
	return b
}
func gvIdx(s []byte, i *big.Int) *big.Int {
	if !i.IsInt64() || i.Int64() < 0 || i.Int64() >= int64(len(s)) {
		panic("GOVC-SPEC-INDEX-OUT-OF-RANGE")
	}
	return big.NewInt(int64(s[i.Int64()]))
}
func gvBig(x *big.Int) *big.Int {
	if x == nil {
		panic("GOVC-SPEC-NIL-BIG")
	}
	return new(big.Int).Set(x)
}
`

func (g *goGen) expr(e *CE) (string, goKind) {
	switch e.Kind {
	case "num":
		if e.Num.IsInt64() {
			return fmt.Sprintf("gvI(%d)", e.Num.Int64()), gI
		}
		return fmt.Sprintf("gvS(%q)", e.Num.String()), gI
	case "bool":
		return e.Name, gB
	case "nil":
		return "nil", gP
	case "id":
		return g.ident(e.Name)
	case "old":
		saved := g.inOld
		g.inOld = true
		c, k := g.expr(e.Args[0])
		g.inOld = saved
		return c, k
	case "un":
		c, k := g.expr(e.Args[0])
		switch e.Name {
		case "!":
			return "(!" + c + ")", gB
		case "-":
			return "gvNeg(" + c + ")", gI
		}
		_ = k
		g.fail("unary %s", e.Name)
	case "tern":
		c, _ := g.expr(e.Args[0])
		a, ka := g.expr(e.Args[1])
		b, _ := g.expr(e.Args[2])
		if ka == gB {
			return fmt.Sprintf("func() bool { if %s { return %s }; return %s }()", c, a, b), gB
		}
		return fmt.Sprintf("func() *big.Int { if %s { return %s }; return %s }()", c, a, b), gI
	case "bin":
		return g.binary(e)
	case "field":
		if e.Args[0].Kind == "id" && e.Args[0].Name == "result" {
			var n int
			if _, err := fmt.Sscanf(e.Name, "%d", &n); err == nil && n < g.nres {
				return g.resultVar(n)
			}
		}
		// package-qualified constant
		if e.Args[0].Kind == "id" {
			if _, ok := g.vars[e.Args[0].Name]; !ok {
				for _, imp := range g.pkg.Imports() {
					if imp.Name() == e.Args[0].Name {
						return fmt.Sprintf("gvAny(%s.%s)", imp.Name(), e.Name), gI
					}
				}
			}
		}
		g.fail("field access %s", e)
	case "index":
		b, kb := g.expr(e.Args[0])
		i, _ := g.expr(e.Args[1])
		if kb != gS {
			g.fail("indexing a non byte-slice in %s", e)
		}
		return fmt.Sprintf("gvIdx(%s, %s)", b, i), gI
	case "call":
		return g.call(e)
	case "forall", "exists":
		if e.Typ != "" || len(e.Vars) != 1 {
			g.fail("unbounded quantifier")
		}
		lo, _ := g.expr(e.Args[0])
		hi, _ := g.expr(e.Args[1])
		g.nq++
		v := e.Vars[0]
		saved, had := g.vars[v]
		g.vars[v] = goVar{"q_" + v, gI}
		body, _ := g.expr(e.Args[2])
		if had {
			g.vars[v] = saved
		} else {
			delete(g.vars, v)
		}
		init, ret := "true", "false"
		cond := "!(" + body + ")"
		if e.Kind == "exists" {
			init, ret = "false", "true"
			cond = body
		}
		return fmt.Sprintf("func() bool { lo, hi := %s, %s; if gvSub(hi, lo).Cmp(gvI(1<<20)) > 0 { panic(\"GOVC-SPEC-RANGE-TOO-LARGE\") }; for q_%s := new(big.Int).Set(lo); q_%s.Cmp(hi) < 0; q_%s = gvAdd(q_%s, gvI(1)) { if %s { return %s } }; return %s }()",
			lo, hi, v, v, v, v, cond, ret, init), gB
	}
	g.fail("expression %s", e)
	return "", gI
}

func (g *goGen) resultVar(n int) (string, goKind) {
	k := g.resK[n]
	name := fmt.Sprintf("r%d", n)
	switch k {
	case gI:
		return "gvAny(" + name + ")", gI
	}
	return name, k
}

func (g *goGen) ident(name string) (string, goKind) {
	if g.inOld {
		if v, ok := g.old[name]; ok {
			return v.code, v.kind
		}
	}
	if v, ok := g.vars[name]; ok {
		return v.code, v.kind
	}
	switch name {
	case "result":
		if g.nres == 1 {
			return g.resultVar(0)
		}
	case "err":
		if g.nres > 0 && g.resK[g.nres-1] == gE {
			return fmt.Sprintf("r%d", g.nres-1), gE
		}
	}
	if obj := g.pkg.Scope().Lookup(name); obj != nil {
		if _, ok := obj.(*types.Const); ok {
			if b, ok := obj.Type().Underlying().(*types.Basic); ok && b.Info()&types.IsBoolean != 0 {
				return name, gB
			}
			if b, ok := obj.Type().Underlying().(*types.Basic); ok && b.Info()&types.IsUntyped != 0 {
				return fmt.Sprintf("gvS(%q)", obj.(*types.Const).Val().ExactString()), gI
			}
			return "gvAny(" + name + ")", gI
		}
	}
	g.fail("identifier %s", name)
	return "", gI
}

func (g *goGen) binary(e *CE) (string, goKind) {
	op := e.Name
	switch op {
	case "&&", "||":
		a, _ := g.expr(e.Args[0])
		b, _ := g.expr(e.Args[1])
		return "(" + a + " " + op + " " + b + ")", gB
	case "==>":
		a, _ := g.expr(e.Args[0])
		b, _ := g.expr(e.Args[1])
		return "(!(" + a + ") || " + b + ")", gB
	case "<==>":
		a, _ := g.expr(e.Args[0])
		b, _ := g.expr(e.Args[1])
		return "((" + a + ") == (" + b + "))", gB
	}
	a, ka := g.expr(e.Args[0])
	b, kb := g.expr(e.Args[1])
	switch op {
	case "==", "!=":
		if ka == gI && kb == gI {
			if op == "==" {
				return "(" + a + ".Cmp(" + b + ") == 0)", gB
			}
			return "(" + a + ".Cmp(" + b + ") != 0)", gB
		}
		if ka == gB && kb == gB || ka == gE || kb == gE || ka == gP || kb == gP || ka == gS && kb == gP {
			return "(" + a + " " + op + " " + b + ")", gB
		}
		g.fail("comparison %s", e)
	case "<", "<=", ">", ">=":
		return "(" + a + ".Cmp(" + b + ") " + op + " 0)", gB
	}
	fn := map[string]string{"+": "gvAdd", "-": "gvSub", "*": "gvMul", "/": "gvQuo", "%": "gvRem", "<<": "gvShl", ">>": "gvShr", "&": "gvAnd", "|": "gvOr", "^": "gvXor", "&^": "gvAndNot"}[op]
	if fn == "" {
		g.fail("operator %s", op)
	}
	return fn + "(" + a + ", " + b + ")", gI
}

func (g *goGen) call(e *CE) (string, goKind) {
	name := e.Name
	if t, ok := goBasicByName(name); ok && len(e.Args) == 1 && name != "bool" {
		it, _ := intTyOf(t)
		a, _ := g.expr(e.Args[0])
		return fmt.Sprintf("gvWrap(%s, %d, %v)", a, it.W, it.Signed), gI
	}
	switch name {
	case "len":
		a, k := g.expr(e.Args[0])
		if k != gS {
			g.fail("len of non-slice")
		}
		return "gvI(int64(len(" + a + ")))", gI
	case "big":
		a, _ := g.expr(e.Args[0])
		return a, gI
	case "pow2":
		a, _ := g.expr(e.Args[0])
		return "gvPow2(" + a + ")", gI
	case "bytelen":
		a, _ := g.expr(e.Args[0])
		return "gvByteLen(" + a + ")", gI
	case "abs":
		a, _ := g.expr(e.Args[0])
		return "gvAbs(" + a + ")", gI
	case "ediv":
		a, _ := g.expr(e.Args[0])
		b, _ := g.expr(e.Args[1])
		return "gvDiv(" + a + ", " + b + ")", gI
	case "emod":
		a, _ := g.expr(e.Args[0])
		b, _ := g.expr(e.Args[1])
		return "gvMod(" + a + ", " + b + ")", gI
	case "min", "max":
		a, _ := g.expr(e.Args[0])
		b, _ := g.expr(e.Args[1])
		c := "<"
		if name == "max" {
			c = ">"
		}
		return fmt.Sprintf("gvIf(%s.Cmp(%s) %s 0, %s, %s)", a, b, c, a, b), gI
	case "fresh":
		return "true", gB
	case "mathint":
		return g.expr(e.Args[0])
	}
	sf := g.findSpec(name)
	if sf == nil || sf.Uninterp {
		g.fail("function %s", name)
	}
	g.genSpec(sf)
	var args []string
	for _, a := range e.Args {
		c, k := g.expr(a)
		if k != gI && k != gB {
			g.fail("spec argument kind in %s", e)
		}
		args = append(args, c)
	}
	k := gI
	if sf.Ret == "bool" {
		k = gB
	}
	return "spec_" + name + "(" + strings.Join(args, ", ") + ")", k
}

func (g *goGen) findSpec(name string) *SpecFn {
	if g.pc != nil {
		if sf, ok := g.pc.Specs[name]; ok {
			return sf
		}
	}
	for _, p := range g.uni.pkgs {
		if p.Contracts != nil {
			if sf, ok := p.Contracts.Specs[name]; ok {
				return sf
			}
		}
	}
	return nil
}

func (g *goGen) genSpec(sf *SpecFn) {
	if _, ok := g.specs[sf.Name]; ok {
		return
	}
	g.specs[sf.Name] = "" // recursion guard
	sub := &goGen{vars: map[string]goVar{}, old: map[string]goVar{}, pc: g.pc, uni: g.uni, pkg: g.pkg, specs: g.specs}
	var ps []string
	for _, p := range sf.Params {
		switch p.Type {
		case "bool":
			sub.vars[p.Name] = goVar{"p_" + p.Name, gB}
			ps = append(ps, "p_"+p.Name+" bool")
		case "seq", "intseq", "ref":
			g.fail("spec %s takes a %s", sf.Name, p.Type)
		default:
			sub.vars[p.Name] = goVar{"p_" + p.Name, gI}
			ps = append(ps, "p_"+p.Name+" *big.Int")
		}
	}
	body, _ := sub.expr(sf.Body)
	ret := "*big.Int"
	if sf.Ret == "bool" {
		ret = "bool"
	}
	g.specs[sf.Name] = fmt.Sprintf("func spec_%s(%s) %s { return %s }\n", sf.Name, strings.Join(ps, ", "), ret, body)
	g.order = append(g.order, sf.Name)
	for _, n := range sub.order {
		g.order = append(g.order, n)
	}
}

var _ = big.NewInt
