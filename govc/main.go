package main

import (
	"flag"
	"fmt"
	"math/big"
	"os"
	"path/filepath"
	"sort"
	"strings"
	"sync"
	"time"
)

func bigInt(v int64) *big.Int { return big.NewInt(v) }

type OblResult struct {
	Obl *Obl
	Res *SolveResult
}

func solveAll(obls []*Obl, dir string, timeoutSec, par int) []OblResult {
	out := make([]OblResult, len(obls))
	var wg sync.WaitGroup
	sem := make(chan struct{}, par)
	for i, o := range obls {
		i, o := i, o
		wg.Add(1)
		go func() {
			defer wg.Done()
			sem <- struct{}{}
			defer func() { <-sem }()
			out[i] = OblResult{o, o.solve(dir, timeoutSec, 0)}
		}()
	}
	wg.Wait()
	return out
}

func cmdVerify(args []string) int {
	fs := flag.NewFlagSet("verify", flag.ExitOnError)
	repo := fs.String("repo", "/repo", "repository root")
	mod := fs.String("mod", "/repo", "module directory")
	pkgPat := fs.String("pkg", "./blockchain", "package pattern")
	only := fs.String("fn", "", "comma-separated function/lemma names (default all)")
	timeout := fs.Int("timeout", 10, "solver timeout (s)")
	dump := fs.String("dump", "", "directory for SMT files")
	slow := fs.Bool("slow", false, "include thorough-only obligations")
	untrust := fs.Bool("untrust", false, "experiment: verify the bodies of functions marked trusted as well")
	fs.Parse(args)
	dir := *dump
	if dir == "" {
		d, _ := os.MkdirTemp("", "govc-")
		dir = d
		defer os.RemoveAll(d)
	} else {
		os.MkdirAll(dir, 0o755)
	}
	t0 := time.Now()
	u, err := loadUniverse(*repo, *mod, []string{*pkgPat})
	if err != nil {
		fmt.Println("load error:", err)
		return 2
	}
	fmt.Printf("loaded in %.1fs\n", time.Since(t0).Seconds())
	want := map[string]bool{}
	for _, n := range strings.Split(*only, ",") {
		if n != "" {
			want[n] = true
		}
	}
	rc := 0
	var paths []string
	for p := range u.pkgs {
		paths = append(paths, p)
	}
	sort.Strings(paths)
	for _, p := range paths {
		pi := u.pkgs[p]
		if pi.Contracts == nil || !pi.Local {
			continue
		}
		var obls []*Obl
		for _, key := range pi.Contracts.Order {
			fc := pi.Contracts.Funcs[key]
			if len(want) > 0 && !want[key] && !want[fc.Fn] {
				continue
			}
			if fc.Trusted && !*untrust {
				continue
			}
			r := genFunction(u, pi, fc)
			if r.Err != nil {
				fmt.Println("ERROR", r.Err)
				rc = 2
				continue
			}
			for _, n := range r.VC.notes {
				fmt.Println("  note:", key+":", n)
			}
			obls = append(obls, r.VC.obls...)
		}
		for _, lm := range pi.Contracts.Lemmas {
			if len(want) > 0 && !want[lm.Name] {
				continue
			}
			r := genLemma(u, pi, lm)
			if r.Err != nil {
				fmt.Println("ERROR", r.Err)
				rc = 2
				continue
			}
			obls = append(obls, r.VC.obls...)
		}
		var sel []*Obl
		for _, o := range obls {
			if o.Slow && !*slow {
				continue
			}
			sel = append(sel, o)
		}
		results := solveAll(sel, dir, *timeout, 6)
		for _, r := range results {
			mark := "ok  "
			if r.Res.Status != "proved" {
				mark = "FAIL"
				rc = 1
			}
			fmt.Printf("%s %-60s %-8s %-8s %5dms  %s\n", mark, r.Obl.Name, r.Res.Status, r.Res.Solver, r.Res.Ms, r.Obl.Desc)
			if r.Res.Status != "proved" {
				outs := ""
				for _, k := range sortedKeys(r.Res.Outputs) {
					v := r.Res.Outputs[k]
					if len(v) > 90 {
						v = v[:90]
					}
					outs += k + "=" + v + " "
				}
				fmt.Printf("      at %s; %s; file %s\n", r.Obl.Pos, outs, r.Res.File)
				if len(r.Res.Model) > 0 {
					var ks []string
					for k := range r.Res.Model {
						if !strings.HasPrefix(k, "(") {
							ks = append(ks, k)
						}
					}
					sort.Strings(ks)
					for _, k := range ks {
						fmt.Printf("        %s = %s\n", k, r.Res.Model[k])
					}
				}
			}
		}
	}
	_ = filepath.Join
	return rc
}

func main() {
	os.Setenv("PATH", "/opt/veriftools/go1.26.8/bin:"+os.Getenv("PATH"))
	os.Setenv("GOTOOLCHAIN", "local")
	os.Setenv("GOFLAGS", "-mod=mod")
	os.Setenv("GOPROXY", "off")
	os.Setenv("GOSUMDB", "off")
	if len(os.Args) < 2 {
		fmt.Println("usage: govc verify|check ...")
		os.Exit(2)
	}
	switch os.Args[1] {
	case "verify":
		os.Exit(cmdVerify(os.Args[2:]))
	case "check":
		os.Exit(cmdCheck(os.Args[2:]))
	case "sweep":
		os.Exit(cmdSweep(os.Args[2:]))
	default:
		fmt.Println("unknown command")
		os.Exit(2)
	}
}
