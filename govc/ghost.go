package main

// Package-level ghost state ("//@ ghostvar name type"): specification-only variables that contracts read and
// write as ghost.name. They live in heap components of their own, so frames, havoc and old() treat them like
// any other location; executable code can never touch them.

import (
	"go/types"
	"sort"
	"strings"
)

func ghostPrefix(pi *PkgInfo, name string) string { return "Ghost." + shortPkg(pi.Path) + "." + name }

// findGhost resolves a ghost variable name: the current package first, then every loaded package.
func findGhost(u *Universe, cur *PkgInfo, name string) (*PkgInfo, types.Type, bool) {
	try := func(p *PkgInfo) (types.Type, bool) {
		if p == nil || p.Contracts == nil {
			return nil, false
		}
		for _, g := range p.Contracts.GhostVars {
			if g.Name == name {
				switch g.Type {
				case "bool":
					return types.Typ[types.Bool], true
				case "int":
					return types.Typ[types.Int], true
				}
				if t, ok := basicByName(g.Type); ok {
					return t, true
				}
				unsupported("ghostvar %s: unsupported type %s", name, g.Type)
			}
		}
		return nil, false
	}
	if t, ok := try(cur); ok {
		return cur, t, true
	}
	var keys []string
	for k := range u.pkgs {
		keys = append(keys, k)
	}
	sort.Strings(keys)
	for _, k := range keys {
		if t, ok := try(u.pkgs[k]); ok {
			return u.pkgs[k], t, true
		}
	}
	return nil, nil, false
}

// ghostLoc returns the location of ghost.<name>, or nil when e is not such a designator.
func (c *CEnv) ghostLoc(e *CE) *Loc {
	if e.Kind != "field" || len(e.Args) == 0 || e.Args[0].Kind != "id" || e.Args[0].Name != "ghost" {
		return nil
	}
	if _, isVar := c.tryIdent("ghost"); isVar {
		return nil
	}
	pi, t, ok := findGhost(c.x.vc.uni, c.pkg, e.Name)
	if !ok {
		c.fail("unknown ghost variable %s", e.Name)
	}
	return &Loc{Prefix: ghostPrefix(pi, e.Name), Root: IntLit(1), T: t}
}

// monotoneGhostComp reports whether a heap component holds a ghost flag declared monotone.
func (u *Universe) monotoneGhostComp(comp string) bool {
	if !strings.HasPrefix(comp, "Ghost.") {
		return false
	}
	for _, pi := range u.pkgs {
		if pi == nil || pi.Contracts == nil {
			continue
		}
		for name := range pi.Contracts.MonotoneGhosts {
			if comp == ghostPrefix(pi, name) {
				return true
			}
		}
	}
	return false
}

// keepMonotone: after a havoc of a monotone ghost flag, true stays true.
func (x *Exec) keepMonotone(k string, old, nw *Term) {
	if x.vc.uni.monotoneGhostComp(k) {
		x.vc.assume(Implies(Select(old, IntLit(1)), Select(nw, IntLit(1))))
	}
}
