package main

// Effectively-final globals: a package-level variable named in a globalinv may only be
// read, and what is read from it may only be handed to callees that cannot change it.

import (
	"fmt"
	"go/types"
	"strings"

	"golang.org/x/tools/go/ssa"
	"golang.org/x/tools/go/ssa/ssautil"
)

func ceIdents(e *CE, out map[string]bool) {
	if e == nil {
		return
	}
	if e.Kind == "id" {
		out[e.Name] = true
	}
	for _, a := range e.Args {
		ceIdents(a, out)
	}
}

// mutating big.Int methods (receiver is written)
func bigMutates(full string) bool {
	if !strings.HasPrefix(full, "(*math/big.Int).") {
		return false
	}
	switch strings.TrimPrefix(full, "(*math/big.Int).") {
	case "Cmp", "CmpAbs", "Sign", "Int64", "Uint64", "IsInt64", "IsUint64", "Bytes", "Bits", "BitLen", "Bit", "String", "Text", "FillBytes", "TrailingZeroBits", "ProbablyPrime", "Float64", "Append", "Format", "MarshalJSON", "MarshalText", "GobEncode":
		return false
	}
	return true
}

// readOnlyUse reports whether every use of pointer value v (an address derived from a global)
// only reads through it. seen guards phi cycles.
func readOnlyUse(v ssa.Value, seen map[ssa.Value]bool) (bool, string) {
	if seen[v] {
		return true, ""
	}
	seen[v] = true
	refs := v.Referrers()
	if refs == nil {
		return true, ""
	}
	for _, ref := range *refs {
		switch r := ref.(type) {
		case *ssa.DebugRef:
		case *ssa.UnOp:
			// load: the loaded value is a copy unless it is itself a pointer (e.g. *big.Int global)
			if _, isPtr := r.Type().Underlying().(*types.Pointer); isPtr {
				if ok, why := readOnlyPtrValue(r); !ok {
					return false, why
				}
			}
		case *ssa.Phi:
			if ok, why := readOnlyUse(r, seen); !ok {
				return false, why
			}
		case *ssa.FieldAddr:
			if ok, why := readOnlyUse(r, seen); !ok {
				return false, why
			}
		case *ssa.IndexAddr:
			if ok, why := readOnlyUse(r, seen); !ok {
				return false, why
			}
		case *ssa.BinOp, *ssa.If:
		case *ssa.Store:
			if r.Addr == v {
				return false, fmt.Sprintf("written in %s", r.Parent().Name())
			}
			return false, fmt.Sprintf("address stored in %s", r.Parent().Name())
		case *ssa.Call:
			callee := r.Common().StaticCallee()
			if callee == nil {
				return false, fmt.Sprintf("passed to a dynamic call in %s", r.Parent().Name())
			}
			full := callee.String()
			switch {
			case strings.HasPrefix(full, "(*github.com/btcsuite/btcd/chainhash/v2.Hash).IsEqual"),
				strings.HasPrefix(full, "(*github.com/btcsuite/btcd/chainhash/v2.Hash).String"),
				strings.HasPrefix(full, "(github.com/btcsuite/btcd/chainhash/v2.Hash).String"):
			default:
				return false, fmt.Sprintf("address passed to %s in %s", full, r.Parent().Name())
			}
		default:
			return false, fmt.Sprintf("address used by %T in %s", ref, ref.Parent().Name())
		}
	}
	return true, ""
}

// readOnlyPtrValue: a pointer loaded from a global (e.g. a *big.Int) may only be passed where it is not written.
func readOnlyPtrValue(ld *ssa.UnOp) (bool, string) {
	refs := ld.Referrers()
	if refs == nil {
		return true, ""
	}
	for _, ref := range *refs {
		switch r := ref.(type) {
		case *ssa.DebugRef, *ssa.BinOp, *ssa.If:
		case *ssa.Call:
			c := r.Common()
			callee := c.StaticCallee()
			if callee == nil {
				return false, fmt.Sprintf("value passed to a dynamic call in %s", r.Parent().Name())
			}
			full := callee.String()
			for ai, a := range c.Args {
				if a != ssa.Value(ld) {
					continue
				}
				if strings.HasPrefix(full, "(*math/big.Int).") {
					if ai == 0 && bigMutates(full) {
						return false, fmt.Sprintf("receiver of mutating %s in %s", full, r.Parent().Name())
					}
					continue
				}
				return false, fmt.Sprintf("pointer passed to %s in %s", full, r.Parent().Name())
			}
		default:
			return false, fmt.Sprintf("pointer escapes via %T in %s", ref, ref.Parent().Name())
		}
	}
	return true, ""
}

func globalsNotFinal(pi *PkgInfo) []string {
	var bad []string
	if pi.Contracts == nil || pi.SSA == nil {
		return nil
	}
	names := map[string]bool{}
	for _, gi := range pi.Contracts.GlobalInvs {
		ceIdents(gi.Expr, names)
	}
	for _, n := range sortedKeys(names) {
		g := pi.SSA.Var(n)
		if g == nil {
			continue
		}
		// uses inside the package initialiser are the initialisation itself
		refs := g.Referrers()
		_ = refs
		// ssa.Global has no referrer list: scan the package
		for fn := range ssautil.AllFunctions(pi.SSA.Prog) {
			f := fn
			for f.Parent() != nil {
				f = f.Parent()
			}
			if f.Pkg != pi.SSA || (fn.Name() == "init" && fn.Synthetic != "") {
				continue
			}
			for _, b := range fn.Blocks {
				for _, ins := range b.Instrs {
					for _, op := range ins.Operands(nil) {
						if *op != ssa.Value(g) {
							continue
						}
						switch i := ins.(type) {
						case *ssa.DebugRef:
						case *ssa.UnOp:
							if _, isPtr := i.Type().Underlying().(*types.Pointer); isPtr {
								if ok, why := readOnlyPtrValue(i); !ok {
									bad = append(bad, fmt.Sprintf("global %s: %s", n, why))
								}
							}
						case *ssa.Store:
							bad = append(bad, fmt.Sprintf("global %s: written in %s", n, fn.Name()))
						case *ssa.Phi, *ssa.FieldAddr, *ssa.IndexAddr:
							if ok, why := readOnlyUse(i.(ssa.Value), map[ssa.Value]bool{}); !ok {
								bad = append(bad, fmt.Sprintf("global %s: %s", n, why))
							}
						case *ssa.BinOp, *ssa.If:
						default:
							bad = append(bad, fmt.Sprintf("global %s: address used by %T in %s", n, ins, fn.Name()))
						}
					}
				}
			}
		}
	}
	return bad
}

// finalIfaceType returns the concrete dynamic type of an interface-typed package variable that is
// assigned exactly once (in the package initialiser, from a MakeInterface) and whose address is
// used for nothing but loads anywhere in its package; nil otherwise.
func (u *Universe) finalIfaceType(g *ssa.Global) types.Type {
	if t, ok := u.finalIface[g]; ok {
		return t
	}
	var result types.Type
	defer func() { u.finalIface[g] = result }()
	if g.Pkg == nil {
		return nil
	}
	var concrete types.Type
	stores := 0
	for fn := range ssautil.AllFunctions(g.Pkg.Prog) {
		f := fn
		for f.Parent() != nil {
			f = f.Parent()
		}
		if f.Pkg != g.Pkg {
			continue
		}
		for _, b := range fn.Blocks {
			for _, ins := range b.Instrs {
				for _, op := range ins.Operands(nil) {
					if *op != ssa.Value(g) {
						continue
					}
					switch i := ins.(type) {
					case *ssa.UnOp:
						// load: fine
					case *ssa.Store:
						if i.Addr != ssa.Value(g) {
							return nil // address stored somewhere
						}
						stores++
						if !(fn.Name() == "init" && fn.Synthetic != "") {
							return nil
						}
						mi, ok := i.Val.(*ssa.MakeInterface)
						if !ok {
							return nil
						}
						concrete = mi.X.Type()
					default:
						return nil
					}
				}
			}
		}
	}
	if stores == 1 {
		result = concrete
	}
	return result
}
