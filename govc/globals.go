package main

// Effectively-final globals: a package-level variable named in a globalinv may only be
// read, and what is read from it may only be handed to callees that cannot change it.

import (
	"fmt"
	"go/types"
	"strings"

	"golang.org/x/tools/go/ssa"
	"golang.org/x/tools/go/ssa/ssautil"
)

func ceIdents(e *CE, out map[string]bool) {
	if e == nil {
		return
	}
	if e.Kind == "id" {
		out[e.Name] = true
	}
	for _, a := range e.Args {
		ceIdents(a, out)
	}
}

// mutating big.Int methods (receiver is written)
func bigMutates(full string) bool {
	if !strings.HasPrefix(full, "(*math/big.Int).") {
		return false
	}
	switch strings.TrimPrefix(full, "(*math/big.Int).") {
	case "Cmp", "CmpAbs", "Sign", "Int64", "Uint64", "IsInt64", "IsUint64", "Bytes", "Bits", "BitLen", "Bit", "String", "Text", "FillBytes", "TrailingZeroBits", "ProbablyPrime", "Float64", "Append", "Format", "MarshalJSON", "MarshalText", "GobEncode":
		return false
	}
	return true
}

func globalsNotFinal(pi *PkgInfo) []string {
	var bad []string
	if pi.Contracts == nil || pi.SSA == nil {
		return nil
	}
	names := map[string]bool{}
	for _, gi := range pi.Contracts.GlobalInvs {
		ceIdents(gi.Expr, names)
	}
	globals := map[*ssa.Global]bool{}
	for n := range names {
		if g := pi.SSA.Var(n); g != nil {
			globals[g] = true
		}
	}
	if len(globals) == 0 {
		return nil
	}
	for fn := range ssautil.AllFunctions(pi.SSA.Prog) {
		f := fn
		for f.Parent() != nil {
			f = f.Parent()
		}
		if f.Pkg != pi.SSA {
			continue
		}
		if fn.Name() == "init" && fn.Synthetic != "" {
			continue
		}
		for _, b := range fn.Blocks {
			for _, ins := range b.Instrs {
				// direct uses of the global's address
				for _, op := range ins.Operands(nil) {
					g, ok := (*op).(*ssa.Global)
					if !ok || !globals[g] {
						continue
					}
					ld, isLoad := ins.(*ssa.UnOp)
					if !isLoad {
						bad = append(bad, fmt.Sprintf("global %s: address used by %T in %s", g.Name(), ins, fn.Name()))
						continue
					}
					// uses of the loaded value
					for _, ref := range *ld.Referrers() {
						switch r := ref.(type) {
						case *ssa.DebugRef:
						case *ssa.Call:
							c := r.Common()
							callee := c.StaticCallee()
							if callee == nil {
								bad = append(bad, fmt.Sprintf("global %s: value passed to a dynamic call in %s", g.Name(), fn.Name()))
								continue
							}
							full := callee.String()
							for ai, a := range c.Args {
								if a != ld {
									continue
								}
								if _, isPtr := a.Type().Underlying().(*types.Pointer); !isPtr {
									continue // passed by value
								}
								if strings.HasPrefix(full, "(*math/big.Int).") {
									if ai == 0 && bigMutates(full) {
										bad = append(bad, fmt.Sprintf("global %s: receiver of mutating %s in %s", g.Name(), full, fn.Name()))
									}
									continue
								}
								bad = append(bad, fmt.Sprintf("global %s: pointer passed to %s in %s", g.Name(), full, fn.Name()))
							}
						case *ssa.BinOp, *ssa.Phi, *ssa.If:
							// comparisons are harmless; a phi may forward the pointer: be conservative
							if _, isPhi := r.(*ssa.Phi); isPhi {
								if _, isPtr := ld.Type().Underlying().(*types.Pointer); isPtr {
									bad = append(bad, fmt.Sprintf("global %s: pointer flows through a phi in %s", g.Name(), fn.Name()))
								}
							}
						case *ssa.Return, *ssa.Store, *ssa.MakeInterface, *ssa.MapUpdate, *ssa.Send:
							if _, isPtr := ld.Type().Underlying().(*types.Pointer); isPtr {
								bad = append(bad, fmt.Sprintf("global %s: pointer escapes via %T in %s", g.Name(), r, fn.Name()))
							}
						}
					}
				}
			}
		}
	}
	return bad
}

// finalIfaceType returns the concrete dynamic type of an interface-typed package variable that is
// assigned exactly once (in the package initialiser, from a MakeInterface) and whose address is
// used for nothing but loads anywhere in its package; nil otherwise.
func (u *Universe) finalIfaceType(g *ssa.Global) types.Type {
	if t, ok := u.finalIface[g]; ok {
		return t
	}
	var result types.Type
	defer func() { u.finalIface[g] = result }()
	if g.Pkg == nil {
		return nil
	}
	var concrete types.Type
	stores := 0
	for fn := range ssautil.AllFunctions(g.Pkg.Prog) {
		f := fn
		for f.Parent() != nil {
			f = f.Parent()
		}
		if f.Pkg != g.Pkg {
			continue
		}
		for _, b := range fn.Blocks {
			for _, ins := range b.Instrs {
				for _, op := range ins.Operands(nil) {
					if *op != ssa.Value(g) {
						continue
					}
					switch i := ins.(type) {
					case *ssa.UnOp:
						// load: fine
					case *ssa.Store:
						if i.Addr != ssa.Value(g) {
							return nil // address stored somewhere
						}
						stores++
						if !(fn.Name() == "init" && fn.Synthetic != "") {
							return nil
						}
						mi, ok := i.Val.(*ssa.MakeInterface)
						if !ok {
							return nil
						}
						concrete = mi.X.Type()
					default:
						return nil
					}
				}
			}
		}
	}
	if stores == 1 {
		result = concrete
	}
	return result
}
