package main

// SMT-LIB term AST, with light simplification in the constructors.

import (
	"fmt"
	"math/big"
	"sort"
	"strings"
)

const (
	SInt  = "Int"
	SBool = "Bool"
)

func SArr(idx, elem string) string { return "(Array " + idx + " " + elem + ")" }
func SBV(w int) string             { return fmt.Sprintf("(_ BitVec %d)", w) }

func isBVSort(s string) (int, bool) {
	var w int
	if n, _ := fmt.Sscanf(s, "(_ BitVec %d)", &w); n == 1 {
		return w, true
	}
	return 0, false
}

// arrSorts splits "(Array I E)" into I and E.
func arrSorts(s string) (string, string, bool) {
	if !strings.HasPrefix(s, "(Array ") {
		return "", "", false
	}
	body := s[len("(Array ") : len(s)-1]
	// first sort token
	depth := 0
	for i := 0; i < len(body); i++ {
		switch body[i] {
		case '(':
			depth++
		case ')':
			depth--
		case ' ':
			if depth == 0 {
				return body[:i], body[i+1:], true
			}
		}
	}
	return "", "", false
}

type Term struct {
	Op   string
	Args []*Term
	S    string // sort
	// binder support: for forall/exists/let, Vars holds bound (name, sort) pairs
	Vars [][2]string
	Pat  []*Term // optional triggers for quantifiers
}

func quoteSym(s string) string {
	for i := 0; i < len(s); i++ {
		c := s[i]
		if !(c >= 'a' && c <= 'z' || c >= 'A' && c <= 'Z' || c >= '0' && c <= '9' || c == '_' || c == '.' || c == '!' || c == '$' || c == '@' || c == '#' || c == '-' || c == '~') {
			return "|" + s + "|"
		}
	}
	if s == "" || (s[0] >= '0' && s[0] <= '9') || s[0] == '#' || s[0] == '-' {
		return "|" + s + "|"
	}
	return s
}

func Sym(name, sort string) *Term { return &Term{Op: quoteSym(name), S: sort} }

var (
	TTrue  = &Term{Op: "true", S: SBool}
	TFalse = &Term{Op: "false", S: SBool}
)

func BoolLit(b bool) *Term {
	if b {
		return TTrue
	}
	return TFalse
}

func IntLitBig(v *big.Int) *Term {
	if v.Sign() < 0 {
		return &Term{Op: "(- " + new(big.Int).Neg(v).String() + ")", S: SInt}
	}
	return &Term{Op: v.String(), S: SInt}
}
func IntLit(v int64) *Term { return IntLitBig(big.NewInt(v)) }

func BVLitBig(v *big.Int, w int) *Term {
	m := new(big.Int).Lsh(big.NewInt(1), uint(w))
	x := new(big.Int).Mod(v, m)
	return &Term{Op: fmt.Sprintf("(_ bv%s %d)", x.String(), w), S: SBV(w)}
}

// litValue returns the integer value of a literal term, if it is one.
func litValue(t *Term) (*big.Int, bool) {
	if len(t.Args) != 0 {
		return nil, false
	}
	if t.S == SInt {
		s := t.Op
		neg := false
		if strings.HasPrefix(s, "(- ") {
			neg = true
			s = s[3 : len(s)-1]
		}
		if s == "" || s[0] < '0' || s[0] > '9' {
			return nil, false
		}
		v, ok := new(big.Int).SetString(s, 10)
		if !ok {
			return nil, false
		}
		if neg {
			v.Neg(v)
		}
		return v, true
	}
	if _, ok := isBVSort(t.S); ok && strings.HasPrefix(t.Op, "(_ bv") {
		var s string
		var w int
		fmt.Sscanf(t.Op, "(_ bv%s %d)", &s, &w)
		v, ok := new(big.Int).SetString(s, 10)
		return v, ok
	}
	return nil, false
}

func App(op, sort string, args ...*Term) *Term {
	return &Term{Op: op, Args: args, S: sort}
}

func Not(a *Term) *Term {
	switch {
	case a == TTrue || a.Op == "true" && len(a.Args) == 0:
		return TFalse
	case a.Op == "false" && len(a.Args) == 0:
		return TTrue
	case a.Op == "not" && len(a.Args) == 1:
		return a.Args[0]
	}
	return App("not", SBool, a)
}

func isTrue(t *Term) bool  { return t.Op == "true" && len(t.Args) == 0 }
func isFalse(t *Term) bool { return t.Op == "false" && len(t.Args) == 0 }

func And(as ...*Term) *Term {
	var out []*Term
	for _, a := range as {
		if a == nil || isTrue(a) {
			continue
		}
		if isFalse(a) {
			return TFalse
		}
		if a.Op == "and" && len(a.Vars) == 0 {
			out = append(out, a.Args...)
		} else {
			out = append(out, a)
		}
	}
	switch len(out) {
	case 0:
		return TTrue
	case 1:
		return out[0]
	}
	return App("and", SBool, out...)
}

func Or(as ...*Term) *Term {
	var out []*Term
	for _, a := range as {
		if a == nil || isFalse(a) {
			continue
		}
		if isTrue(a) {
			return TTrue
		}
		if a.Op == "or" {
			out = append(out, a.Args...)
		} else {
			out = append(out, a)
		}
	}
	switch len(out) {
	case 0:
		return TFalse
	case 1:
		return out[0]
	}
	return App("or", SBool, out...)
}

func Implies(a, b *Term) *Term {
	if isTrue(a) {
		return b
	}
	if isFalse(a) || isTrue(b) {
		return TTrue
	}
	if isFalse(b) {
		return Not(a)
	}
	return App("=>", SBool, a, b)
}

func termEqual(a, b *Term) bool {
	if a == b {
		return true
	}
	if a.Op != b.Op || len(a.Args) != len(b.Args) || a.S != b.S || len(a.Vars) != len(b.Vars) {
		return false
	}
	for i := range a.Vars {
		if a.Vars[i] != b.Vars[i] {
			return false
		}
	}
	for i := range a.Args {
		if !termEqual(a.Args[i], b.Args[i]) {
			return false
		}
	}
	return true
}

func Eq(a, b *Term) *Term {
	if a.S != b.S {
		panic(fmt.Sprintf("Eq: sort mismatch %s vs %s (%s, %s)", a.S, b.S, a, b))
	}
	if termEqual(a, b) {
		return TTrue
	}
	if va, ok := litValue(a); ok {
		if vb, ok := litValue(b); ok {
			return BoolLit(va.Cmp(vb) == 0)
		}
	}
	if a.S == SBool {
		if isTrue(b) {
			return a
		}
		if isTrue(a) {
			return b
		}
		if isFalse(b) {
			return Not(a)
		}
		if isFalse(a) {
			return Not(b)
		}
	}
	return App("=", SBool, a, b)
}

func Ite(c, a, b *Term) *Term {
	if a.S != b.S {
		panic(fmt.Sprintf("Ite: sort mismatch %s vs %s (%s | %s)", a.S, b.S, a, b))
	}
	if isTrue(c) {
		return a
	}
	if isFalse(c) {
		return b
	}
	if termEqual(a, b) {
		return a
	}
	if a.S == SBool {
		if isTrue(a) && isFalse(b) {
			return c
		}
		if isFalse(a) && isTrue(b) {
			return Not(c)
		}
	}
	return App("ite", a.S, c, a, b)
}

func Select(arr, idx *Term) *Term {
	_, e, ok := arrSorts(arr.S)
	if !ok {
		panic("Select on non-array sort " + arr.S + ": " + arr.String())
	}
	// select(store(a,i,v), i) = v when syntactically equal
	if arr.Op == "store" && len(arr.Args) == 3 && termEqual(arr.Args[1], idx) {
		return arr.Args[2]
	}
	return App("select", e, arr, idx)
}

func Store(arr, idx, v *Term) *Term {
	_, e, ok := arrSorts(arr.S)
	if !ok {
		panic("Store on non-array sort " + arr.S)
	}
	if e != v.S {
		panic(fmt.Sprintf("Store: element sort mismatch %s vs %s", e, v.S))
	}
	return App("store", arr.S, arr, idx, v)
}

func Forall(vars [][2]string, body *Term, pats ...*Term) *Term {
	if isTrue(body) {
		return TTrue
	}
	return &Term{Op: "forall", Args: []*Term{body}, S: SBool, Vars: vars, Pat: pats}
}
func Exists(vars [][2]string, body *Term) *Term {
	if isFalse(body) {
		return TFalse
	}
	return &Term{Op: "exists", Args: []*Term{body}, S: SBool, Vars: vars}
}

// integer helpers (Int sort)
func iAdd(a, b *Term) *Term {
	if va, ok := litValue(a); ok {
		if vb, ok := litValue(b); ok {
			return IntLitBig(new(big.Int).Add(va, vb))
		}
		if va.Sign() == 0 {
			return b
		}
	}
	if vb, ok := litValue(b); ok && vb.Sign() == 0 {
		return a
	}
	return App("+", SInt, a, b)
}
func iSub(a, b *Term) *Term {
	if vb, ok := litValue(b); ok {
		if va, ok := litValue(a); ok {
			return IntLitBig(new(big.Int).Sub(va, vb))
		}
		if vb.Sign() == 0 {
			return a
		}
	}
	return App("-", SInt, a, b)
}
func iMul(a, b *Term) *Term {
	if va, ok := litValue(a); ok {
		if vb, ok := litValue(b); ok {
			return IntLitBig(new(big.Int).Mul(va, vb))
		}
		if va.Cmp(big.NewInt(1)) == 0 {
			return b
		}
	}
	if vb, ok := litValue(b); ok && vb.Cmp(big.NewInt(1)) == 0 {
		return a
	}
	return App("*", SInt, a, b)
}
func iNeg(a *Term) *Term {
	if va, ok := litValue(a); ok {
		return IntLitBig(new(big.Int).Neg(va))
	}
	return App("-", SInt, a)
}
func iDivE(a, b *Term) *Term { // SMT-LIB div (floor for positive divisor)
	if va, ok := litValue(a); ok {
		if vb, ok := litValue(b); ok && vb.Sign() > 0 {
			q := new(big.Int)
			m := new(big.Int)
			q.DivMod(va, vb, m) // Euclidean
			return IntLitBig(q)
		}
	}
	if vb, ok := litValue(b); ok && vb.Cmp(big.NewInt(1)) == 0 {
		return a
	}
	return App("div", SInt, a, b)
}
func iModE(a, b *Term) *Term {
	if va, ok := litValue(a); ok {
		if vb, ok := litValue(b); ok && vb.Sign() > 0 {
			return IntLitBig(new(big.Int).Mod(va, vb))
		}
	}
	return App("mod", SInt, a, b)
}
func iCmp(op string, a, b *Term) *Term {
	if va, ok := litValue(a); ok {
		if vb, ok := litValue(b); ok {
			c := va.Cmp(vb)
			switch op {
			case "<":
				return BoolLit(c < 0)
			case "<=":
				return BoolLit(c <= 0)
			case ">":
				return BoolLit(c > 0)
			case ">=":
				return BoolLit(c >= 0)
			}
		}
	}
	return App(op, SBool, a, b)
}
func iLt(a, b *Term) *Term { return iCmp("<", a, b) }
func iLe(a, b *Term) *Term { return iCmp("<=", a, b) }
func iGe(a, b *Term) *Term { return iCmp(">=", a, b) }
func iGt(a, b *Term) *Term { return iCmp(">", a, b) }

func pow2(k int) *big.Int { return new(big.Int).Lsh(big.NewInt(1), uint(k)) }

func (t *Term) String() string {
	var sb strings.Builder
	t.write(&sb)
	return sb.String()
}

func (t *Term) write(sb *strings.Builder) {
	if len(t.Vars) > 0 && (t.Op == "forall" || t.Op == "exists") {
		sb.WriteString("(" + t.Op + " (")
		for i, v := range t.Vars {
			if i > 0 {
				sb.WriteByte(' ')
			}
			sb.WriteString("(" + quoteSym(v[0]) + " " + v[1] + ")")
		}
		sb.WriteString(") ")
		if len(t.Pat) > 0 {
			sb.WriteString("(! ")
			t.Args[0].write(sb)
			for _, p := range t.Pat {
				sb.WriteString(" :pattern (")
				p.write(sb)
				sb.WriteString(")")
			}
			sb.WriteString(")")
		} else {
			t.Args[0].write(sb)
		}
		sb.WriteString(")")
		return
	}
	if len(t.Args) == 0 {
		sb.WriteString(t.Op)
		return
	}
	sb.WriteString("(" + t.Op)
	for _, a := range t.Args {
		sb.WriteByte(' ')
		a.write(sb)
	}
	sb.WriteByte(')')
}

// freeSyms collects the 0-ary symbol and function names used in t (excluding bound vars).
func (t *Term) freeSyms(out map[string]bool) {
	if len(t.Vars) > 0 {
		inner := map[string]bool{}
		for _, a := range t.Args {
			a.freeSyms(inner)
		}
		for _, p := range t.Pat {
			p.freeSyms(inner)
		}
		for _, v := range t.Vars {
			delete(inner, quoteSym(v[0]))
		}
		for k := range inner {
			out[k] = true
		}
		return
	}
	out[t.Op] = true
	for _, a := range t.Args {
		a.freeSyms(out)
	}
}

// subst replaces 0-ary symbols by terms.
func (t *Term) subst(m map[string]*Term) *Term {
	if len(m) == 0 {
		return t
	}
	if len(t.Args) == 0 && len(t.Vars) == 0 {
		if r, ok := m[t.Op]; ok {
			return r
		}
		return t
	}
	mm := m
	if len(t.Vars) > 0 {
		shadow := false
		for _, v := range t.Vars {
			if _, ok := m[quoteSym(v[0])]; ok {
				shadow = true
			}
		}
		if shadow {
			mm = map[string]*Term{}
			for k, v := range m {
				mm[k] = v
			}
			for _, v := range t.Vars {
				delete(mm, quoteSym(v[0]))
			}
		}
	}
	changed := false
	args := make([]*Term, len(t.Args))
	for i, a := range t.Args {
		args[i] = a.subst(mm)
		if args[i] != a {
			changed = true
		}
	}
	var pats []*Term
	for _, p := range t.Pat {
		q := p.subst(mm)
		if q != p {
			changed = true
		}
		pats = append(pats, q)
	}
	if !changed {
		return t
	}
	return &Term{Op: t.Op, Args: args, S: t.S, Vars: t.Vars, Pat: pats}
}

func sortedKeys[V any](m map[string]V) []string {
	ks := make([]string, 0, len(m))
	for k := range m {
		ks = append(ks, k)
	}
	sort.Strings(ks)
	return ks
}
