package main

// Pure functions of scalar arguments are deterministic: at call sites (and when named in a
// contract) their result is one uninterpreted application fn.<pkg>.<name>(args), constrained by
// the callee's ensures. This lets a contract say "the same value the code computed" without
// re-specifying it (e.g. getAncestorHeight in the block-index invariant).

import (
	"fmt"
	"go/token"
	"go/types"
	"strings"

	"golang.org/x/tools/go/ssa"
)

// pureScalarFn reports whether fn (with contract fc) qualifies: declared pure, scalar params/results.
func pureScalarFn(fn *ssa.Function, fc *FuncContract) bool {
	if fc == nil || !fc.Pure {
		return false
	}
	for _, p := range fn.Params {
		// pointer parameters stand for the identity of the object (assumption, as for pure interface
		// methods: the result depends on nothing that changes while the caller runs)
		k := kindOf(p.Type())
		if k == KPtr && !fc.Trusted {
			// only for assumed (trusted) contracts: a verified function's result may depend on fields the
			// caller mutates between two calls, and one shared application would then be unsound
			return false
		}
		if k == KSlice || k == KArray {
			// a slice or array of scalars stands for its contents (the backing array, offset and length are
			// the arguments); assumed contracts only
			if !fc.Trusted || !scalarElems(p.Type()) {
				return false
			}
			continue
		}
		if k != KScalar && k != KPtr {
			return false
		}
	}
	rs := fn.Signature.Results()
	if rs.Len() != 1 {
		return false
	}
	if k := kindOf(rs.At(0).Type()); k != KScalar && !(k == KArray && fc.Trusted && scalarElems(rs.At(0).Type())) {
		return false
	}
	return true
}

func scalarElems(t types.Type) bool {
	switch u := t.Underlying().(type) {
	case *types.Slice:
		return kindOf(u.Elem()) == KScalar
	case *types.Array:
		return kindOf(u.Elem()) == KScalar
	}
	return false
}

func (x *Exec) pureApp(fn *ssa.Function, args []*Term) *Term {
	m := x.m()
	name := "fn." + fn.Pkg.Pkg.Name() + "." + contractKey(fn)
	q := quoteSym(name)
	rs := m.leafSort(fn.Signature.Results().At(0).Type())
	if _, ok := x.vc.declared[q]; !ok {
		var ss []string
		for _, p := range fn.Params {
			if sl, ok := p.Type().Underlying().(*types.Slice); ok {
				ss = append(ss, SArr(m.ixSort(), m.leafSort(sl.Elem())), m.ixSort(), m.ixSort())
				continue
			}
			ss = append(ss, m.leafSort(p.Type()))
		}
		x.vc.declared[q] = rs
		x.vc.items = append(x.vc.items, Item{Kind: "declfun", Name: q, Raw: fmt.Sprintf("(declare-fun %s (%s) %s)", q, strings.Join(ss, " "), rs)})
	}
	return App(q, rs, args...)
}

func (x *Exec) pureArgTerms(st *State, a Value) []*Term {
	switch a.K {
	case KPtr:
		if !a.isCanonical() {
			unsupported("interior pointer passed to a pure function")
		}
		return []*Term{a.Loc.Root}
	case KSlice:
		lf := x.m().flatten(a.Loc.T)
		if len(lf) != 1 {
			unsupported("slice of composites passed to a pure function")
		}
		c := x.comp(st, a.Loc.Prefix, x.compSortFor(lf[0].Sort, len(a.Loc.Elems)+1))
		return []*Term{nestedSelect(c, a.Loc.indices()), a.Off, a.Len}
	}
	return []*Term{a.X}
}

// pureCallValue: the application plus its contract's ensures as (side) facts.
func (x *Exec) pureCallValue(fr *Frame, st *State, fn *ssa.Function, fc *FuncContract, pkg *PkgInfo, args []Value) Value {
	var ts []*Term
	for _, a := range args {
		ts = append(ts, x.pureArgTerms(st, a)...)
	}
	rt := fn.Signature.Results().At(0).Type()
	res := Value{T: rt, K: KScalar, X: x.pureApp(fn, ts)}
	// an application whose arguments mention a bound variable lives under a binder: no top-level
	// facts (extensionality instances, typing, the callee's ensures) can be stated about it
	for _, t := range ts {
		if termMentionsBound(t) {
			if kindOf(rt) == KArray {
				res, _ = x.m().fromLeaves(rt, []*Term{res.X})
			}
			return res
		}
	}
	x.sliceExtensionality(fn, args, ts, res.X)
	if kindOf(rt) == KArray {
		res, _ = x.m().fromLeaves(rt, []*Term{res.X})
	}
	x.assumeTypeInv(st, res)
	env := &CEnv{x: x, fr: fr, st: st, old: st, pkg: pkg, vars: map[string]Value{}, mode: x.m(), hasResult: true, result: res, sig: fn.Signature, calleeEnv: true}
	for i, p := range fn.Params {
		a := args[i]
		a.T = p.Type()
		env.vars[p.Name()] = a
	}
	// requires are the caller's problem at real call sites; in contract text the term is only
	// meaningful where they hold, so the ensures are guarded by them
	var req []*Term
	env.goal = true
	for _, r := range fc.Requires {
		req = append(req, env.evalBool(r.Expr))
	}
	env.goal = false
	ghost := map[string]bool{"where": true}
	for _, g := range fc.GhostVars {
		ghost[g.Name] = true
	}
	for _, en := range fc.Ensures {
		// clauses over the callee's logical variables are available only through "import"
		ids := map[string]bool{}
		ceIdents(en.Expr, ids)
		skip := false
		for id := range ids {
			if ghost[id] {
				skip = true
			}
		}
		if skip {
			continue
		}
		x.vc.assumeOnce(Implies(And(req...), env.evalBool(en.Expr)))
	}
	return res
}

// lookupPureFn finds a pure scalar Go function of the package by name (for use inside contracts).
func (c *CEnv) lookupPureFn(name string) (*ssa.Function, *FuncContract, *PkgInfo) {
	if c.pkg == nil || c.pkg.SSA == nil || c.pkg.Contracts == nil {
		return nil, nil, nil
	}
	fc := c.pkg.Contracts.Funcs[name]
	if fc == nil {
		// a pure function of a directly imported package that is under contract there (the name must be
		// unambiguous among the imports)
		var fn *ssa.Function
		var ffc *FuncContract
		var fpi *PkgInfo
		for _, imp := range c.pkg.Types.Imports() {
			pi := c.x.vc.uni.pkgs[imp.Path()]
			if pi == nil || pi.Contracts == nil || pi.SSA == nil {
				continue
			}
			ic := pi.Contracts.Funcs[name]
			if ic == nil || ic.Recv != "" {
				continue
			}
			f := pi.SSA.Func(name)
			if f == nil || !pureScalarFn(f, ic) {
				continue
			}
			if fn != nil {
				return nil, nil, nil
			}
			fn, ffc, fpi = f, ic, pi
		}
		return fn, ffc, fpi
	}
	fn := c.pkg.SSA.Func(name)
	if fn == nil || !pureScalarFn(fn, fc) {
		return nil, nil, nil
	}
	return fn, fc, c.pkg
}

var _ = types.Typ

// lookupNamedType resolves "T" or "pkg.T" (no leading '*') to a named type visible from pkg.
func lookupNamedType(pkg *PkgInfo, name string) types.Type {
	if pkg == nil || strings.HasPrefix(name, "*") {
		return nil
	}
	scope := pkg.Types.Scope()
	if i := strings.Index(name, "."); i >= 0 {
		found := false
		for _, imp := range pkg.Types.Imports() {
			if imp.Name() == name[:i] {
				scope = imp.Scope()
				found = true
			}
		}
		if !found {
			return nil
		}
		name = name[i+1:]
	}
	if obj := scope.Lookup(name); obj != nil {
		if tn, ok := obj.(*types.TypeName); ok {
			return tn.Type()
		}
	}
	return nil
}

// A pure function of a slice depends on the bytes in [off, off+len) only, not on the rest of the backing array.
// For every pair of applications of the same function one instance of that fact is emitted (skolemised, so it
// stays quantifier-free): equal scalar arguments, equal offset and length and equal contents at an arbitrary
// position in range imply equal results.
var pureAppsOf = map[*VC]map[string][]pureAppRec{}

type pureAppRec struct {
	args []Value
	ts   []*Term
	res  *Term
}

func (x *Exec) sliceExtensionality(fn *ssa.Function, args []Value, ts []*Term, res *Term) {
	hasSlice := false
	for _, a := range args {
		if a.K == KSlice {
			hasSlice = true
		}
	}
	if !hasSlice {
		return
	}
	m := x.m()
	ixT := IntTy{64, true}
	reg := pureAppsOf[x.vc]
	if reg == nil {
		reg = map[string][]pureAppRec{}
		pureAppsOf[x.vc] = reg
	}
	key := fn.String()
	for _, prev := range reg[key] {
		if termEqual(prev.res, res) {
			continue
		}
		var hyp []*Term
		i, j := 0, 0
		for k, a := range args {
			_ = k
			if a.K == KSlice {
				A, o, n := ts[i], ts[i+1], ts[i+2]
				B, o2, n2 := prev.ts[j], prev.ts[j+1], prev.ts[j+2]
				x.vc.nfresh++
				sk := x.vc.decl(fmt.Sprintf("sk!ext%d", x.vc.nfresh), m.ixSort())
				hyp = append(hyp, Eq(o, o2), Eq(n, n2),
					Implies(And(m.cmp(token.LEQ, o, sk, ixT), m.cmp(token.LSS, sk, x.ixAdd(o, n), ixT)), Eq(Select(A, sk), Select(B, sk))))
				i += 3
				j += 3
				continue
			}
			hyp = append(hyp, Eq(ts[i], prev.ts[j]))
			i++
			j++
		}
		x.vc.assume(Implies(And(hyp...), Eq(res, prev.res)))
	}
	reg[key] = append(reg[key], pureAppRec{args, ts, res})
}

// termMentionsBound: the term contains a variable introduced by a contract quantifier (named v!q<n>,
// v!a<n>) or by an engine-made binder (k!e, k!p, k!bb ...).
func termMentionsBound(t *Term) bool {
	if t == nil {
		return false
	}
	if len(t.Args) == 0 {
		if i := strings.Index(t.Op, "!"); i > 0 && !strings.HasPrefix(t.Op, "sk!") && !strings.HasPrefix(t.Op, "f") {
			rest := t.Op[i+1:]
			if len(rest) > 0 && (rest[0] == 'q' || rest[0] == 'a' || rest[0] == 'e' || rest[0] == 'p' || rest[0] == 'f') {
				return true
			}
		}
		return false
	}
	for _, a := range t.Args {
		if termMentionsBound(a) {
			return true
		}
	}
	return false
}

// pureAppNamed: an uninterpreted application by name (library functions modelled as pure).
func (x *Exec) pureAppNamed(name, rs string, args []*Term) *Term {
	q := quoteSym(name)
	if _, ok := x.vc.declared[q]; !ok {
		var ss []string
		for _, a := range args {
			ss = append(ss, a.S)
		}
		x.vc.declared[q] = rs
		x.vc.items = append(x.vc.items, Item{Kind: "declfun", Name: q, Raw: fmt.Sprintf("(declare-fun %s (%s) %s)", q, strings.Join(ss, " "), rs)})
	}
	return App(q, rs, args...)
}
