package main

// Pure functions of scalar arguments are deterministic: at call sites (and when named in a
// contract) their result is one uninterpreted application fn.<pkg>.<name>(args), constrained by
// the callee's ensures. This lets a contract say "the same value the code computed" without
// re-specifying it (e.g. getAncestorHeight in the block-index invariant).

import (
	"fmt"
	"go/types"
	"strings"

	"golang.org/x/tools/go/ssa"
)

// pureScalarFn reports whether fn (with contract fc) qualifies: declared pure, scalar params/results.
func pureScalarFn(fn *ssa.Function, fc *FuncContract) bool {
	if fc == nil || !fc.Pure {
		return false
	}
	for _, p := range fn.Params {
		// pointer parameters stand for the identity of the object (assumption, as for pure interface
		// methods: the result depends on nothing that changes while the caller runs)
		k := kindOf(p.Type())
		if k == KPtr && !fc.Trusted {
			// only for assumed (trusted) contracts: a verified function's result may depend on fields the
			// caller mutates between two calls, and one shared application would then be unsound
			return false
		}
		if k != KScalar && k != KPtr {
			return false
		}
	}
	rs := fn.Signature.Results()
	if rs.Len() != 1 || kindOf(rs.At(0).Type()) != KScalar {
		return false
	}
	return true
}

func (x *Exec) pureApp(fn *ssa.Function, args []*Term) *Term {
	m := x.m()
	name := "fn." + fn.Pkg.Pkg.Name() + "." + contractKey(fn)
	q := quoteSym(name)
	rs := m.leafSort(fn.Signature.Results().At(0).Type())
	if _, ok := x.vc.declared[q]; !ok {
		var ss []string
		for _, p := range fn.Params {
			ss = append(ss, m.leafSort(p.Type()))
		}
		x.vc.declared[q] = rs
		x.vc.items = append(x.vc.items, Item{Kind: "declfun", Name: q, Raw: fmt.Sprintf("(declare-fun %s (%s) %s)", q, strings.Join(ss, " "), rs)})
	}
	return App(q, rs, args...)
}

func pureArgTerm(a Value) *Term {
	if a.K == KPtr {
		if !a.isCanonical() {
			unsupported("interior pointer passed to a pure function")
		}
		return a.Loc.Root
	}
	return a.X
}

// pureCallValue: the application plus its contract's ensures as (side) facts.
func (x *Exec) pureCallValue(fr *Frame, st *State, fn *ssa.Function, fc *FuncContract, pkg *PkgInfo, args []Value) Value {
	var ts []*Term
	for _, a := range args {
		ts = append(ts, pureArgTerm(a))
	}
	rt := fn.Signature.Results().At(0).Type()
	res := Value{T: rt, K: KScalar, X: x.pureApp(fn, ts)}
	x.assumeTypeInv(st, res)
	env := &CEnv{x: x, fr: fr, st: st, old: st, pkg: pkg, vars: map[string]Value{}, mode: x.m(), hasResult: true, result: res, sig: fn.Signature}
	for i, p := range fn.Params {
		a := args[i]
		a.T = p.Type()
		env.vars[p.Name()] = a
	}
	// requires are the caller's problem at real call sites; in contract text the term is only
	// meaningful where they hold, so the ensures are guarded by them
	var req []*Term
	env.goal = true
	for _, r := range fc.Requires {
		req = append(req, env.evalBool(r.Expr))
	}
	env.goal = false
	for _, en := range fc.Ensures {
		x.vc.assumeOnce(Implies(And(req...), env.evalBool(en.Expr)))
	}
	return res
}

// lookupPureFn finds a pure scalar Go function of the package by name (for use inside contracts).
func (c *CEnv) lookupPureFn(name string) (*ssa.Function, *FuncContract, *PkgInfo) {
	if c.pkg == nil || c.pkg.SSA == nil || c.pkg.Contracts == nil {
		return nil, nil, nil
	}
	fc := c.pkg.Contracts.Funcs[name]
	if fc == nil {
		return nil, nil, nil
	}
	fn := c.pkg.SSA.Func(name)
	if fn == nil || !pureScalarFn(fn, fc) {
		return nil, nil, nil
	}
	return fn, fc, c.pkg
}

var _ = types.Typ

// lookupNamedType resolves "T" or "pkg.T" (no leading '*') to a named type visible from pkg.
func lookupNamedType(pkg *PkgInfo, name string) types.Type {
	if pkg == nil || strings.HasPrefix(name, "*") {
		return nil
	}
	scope := pkg.Types.Scope()
	if i := strings.Index(name, "."); i >= 0 {
		found := false
		for _, imp := range pkg.Types.Imports() {
			if imp.Name() == name[:i] {
				scope = imp.Scope()
				found = true
			}
		}
		if !found {
			return nil
		}
		name = name[i+1:]
	}
	if obj := scope.Lookup(name); obj != nil {
		if tn, ok := obj.(*types.TypeName); ok {
			return tn.Type()
		}
	}
	return nil
}
