package main

// Quantifier shaping: quantified array facts are re-expressed over absolute indices
// (j = off + k) so that the trigger is a plain (select A j), which all three solvers
// instantiate reliably; (select A (+ off k)) patterns are not matched robustly.

import "fmt"

func termMentions(t *Term, sym string) bool {
	if len(t.Args) == 0 && len(t.Vars) == 0 {
		return t.Op == sym
	}
	for _, v := range t.Vars {
		if quoteSym(v[0]) == sym {
			return false
		}
	}
	for _, a := range t.Args {
		if termMentions(a, sym) {
			return true
		}
	}
	return false
}

func walkTerm(t *Term, f func(*Term)) {
	f(t)
	for _, a := range t.Args {
		walkTerm(a, f)
	}
}

// rewriteBottomUp applies f to every subterm after rewriting its arguments.
func rewriteBottomUp(t *Term, f func(*Term) *Term) *Term {
	if len(t.Args) == 0 {
		return f(t)
	}
	changed := false
	args := make([]*Term, len(t.Args))
	for i, a := range t.Args {
		args[i] = rewriteBottomUp(a, f)
		if args[i] != a {
			changed = true
		}
	}
	nt := t
	if changed {
		nt = &Term{Op: t.Op, Args: args, S: t.S, Vars: t.Vars, Pat: t.Pat}
	}
	return f(nt)
}

func isAddOp(op string) bool { return op == "+" || op == "bvadd" }

// shapeQuant returns possibly re-indexed (vars, parts) and trigger patterns.
func (vc *VC) shapeQuant(vars [][2]string, parts []*Term) ([][2]string, []*Term, []*Term) {
	if len(vars) != 1 {
		return vars, parts, nil
	}
	ksym := quoteSym(vars[0][0])
	sort := vars[0][1]
	var offs []*Term
	direct := false
	for _, p := range parts {
		walkTerm(p, func(t *Term) {
			if t.Op != "select" || len(t.Args) != 2 {
				return
			}
			ix := t.Args[1]
			if len(ix.Args) == 0 && ix.Op == ksym {
				direct = true
				return
			}
			if isAddOp(ix.Op) && len(ix.Args) == 2 {
				a, b := ix.Args[0], ix.Args[1]
				var off *Term
				if len(b.Args) == 0 && b.Op == ksym && !termMentions(a, ksym) {
					off = a
				} else if len(a.Args) == 0 && a.Op == ksym && !termMentions(b, ksym) {
					off = b
				}
				if off != nil {
					for _, o := range offs {
						if termEqual(o, off) {
							return
						}
					}
					offs = append(offs, off)
				}
			}
		})
	}
	jsym := ksym
	if len(offs) > 0 && !direct {
		off := offs[0]
		vc.nfresh++
		jname := fmt.Sprintf("j!a%d", vc.nfresh)
		j := Sym(jname, sort)
		jsym = j.Op
		var repl *Term
		if sort == SInt {
			repl = App("-", SInt, j, off)
		} else {
			repl = App("bvsub", sort, j, off)
		}
		sub := map[string]*Term{ksym: repl}
		out := make([]*Term, len(parts))
		for i, p := range parts {
			q := p.subst(sub)
			q = rewriteBottomUp(q, func(t *Term) *Term {
				if isAddOp(t.Op) && len(t.Args) == 2 {
					a, b := t.Args[0], t.Args[1]
					if termEqual(b, repl) && termEqual(a, off) || termEqual(a, repl) && termEqual(b, off) {
						return j
					}
				}
				// bounds: lo <= j - off  ==>  keep (sound either way); solvers handle it
				return t
			})
			out[i] = q
		}
		parts = out
		vars = [][2]string{{jname, sort}}
	}
	// patterns: select terms indexed exactly by the bound variable, array part closed
	var pats []*Term
	for _, p := range parts {
		walkTerm(p, func(t *Term) {
			if t.Op != "select" || len(t.Args) != 2 {
				return
			}
			ix := t.Args[1]
			if len(ix.Args) == 0 && ix.Op == jsym && !termMentions(t.Args[0], jsym) && !termCalls(t.Args[0], "ite") {
				for _, q := range pats {
					if termEqual(q, t) {
						return
					}
				}
				pats = append(pats, t)
			}
		})
	}
	return vars, parts, pats
}
