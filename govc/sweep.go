package main

// sweep: zero-annotation safety pass. Every selected function without a contract gets the synthetic contract
//   partial; nopanic; modifies *        (optionally allocbound N)
// and its obligations (nil dereference, index/slice bounds, division, allocation size) are discharged.
// Exploratory: a refuted obligation is either a missing precondition or a genuine defect; it is never
// reported as a property violation by itself.

import (
	"flag"
	"fmt"
	"go/types"
	"os"
	"regexp"
	"sort"
	"strings"
	"time"

	"golang.org/x/tools/go/ssa"
)

func cmdSweep(args []string) int {
	fs := flag.NewFlagSet("sweep", flag.ExitOnError)
	repo := fs.String("repo", "/repo", "repository root")
	mod := fs.String("mod", "/repo", "module directory")
	pkgPat := fs.String("pkg", "./blockchain", "package pattern")
	re := fs.String("fn", ".*", "regexp on function keys (Recv.Name or Name)")
	timeout := fs.Int("timeout", 6, "solver timeout (s)")
	alloc := fs.String("allocbound", "", "allocation bound expression")
	verbose := fs.Bool("v", false, "print notes")
	nonnil := fs.Bool("nonnil", true, "assume pointer, interface and map parameters are non-nil")
	fs.Parse(args)
	rx := regexp.MustCompile("^(" + *re + ")$")
	d, _ := os.MkdirTemp("", "govc-sweep-")
	defer os.RemoveAll(d)
	u, err := loadUniverse(*repo, *mod, []string{*pkgPat})
	if err != nil {
		fmt.Println("load error:", err)
		return 2
	}
	var paths []string
	for p := range u.pkgs {
		paths = append(paths, p)
	}
	sort.Strings(paths)
	for _, p := range paths {
		pi := u.pkgs[p]
		if !pi.Local || !u.roots[p] || pi.SSA == nil {
			continue
		}
		var fns []*ssa.Function
		for _, mem := range pi.SSA.Members {
			switch m := mem.(type) {
			case *ssa.Function:
				fns = append(fns, m)
			case *ssa.Type:
				for _, t := range []types.Type{m.Type(), types.NewPointer(m.Type())} {
					ms := u.prog.MethodSets.MethodSet(t)
					for i := 0; i < ms.Len(); i++ {
						if f := u.prog.MethodValue(ms.At(i)); f != nil && f.Pkg == pi.SSA && f.Synthetic == "" {
							fns = append(fns, f)
						}
					}
				}
			}
		}
		seen := map[*ssa.Function]bool{}
		sort.Slice(fns, func(i, j int) bool { return contractKey(fns[i]) < contractKey(fns[j]) })
		for _, fn := range fns {
			key := contractKey(fn)
			if seen[fn] || !rx.MatchString(key) || len(fn.Blocks) == 0 || fn.Synthetic != "" {
				continue
			}
			seen[fn] = true
			if pi.Contracts != nil {
				if _, ok := pi.Contracts.Funcs[key]; ok {
					continue
				}
			}
			fc := &FuncContract{Name: key, Fn: fn.Name(), Recv: recvTypeName(fn), Partial: true, NoPanic: true, ModAll: true, Loops: map[int]*LoopSpec{}, Mode: "int"}
			if *alloc != "" {
				e, err := parseCE(*alloc)
				if err != nil {
					fmt.Println("allocbound:", err)
					return 2
				}
				fc.AllocBound = e
			}
			if *nonnil {
				for _, prm := range fn.Params {
					switch prm.Type().Underlying().(type) {
					case *types.Pointer, *types.Interface, *types.Map:
						if e, err := parseCE(prm.Name() + " != nil"); err == nil && prm.Name() != "" && prm.Name() != "_" {
							fc.Requires = append(fc.Requires, &Clause{Expr: e, Src: prm.Name() + " != nil"})
						}
					}
				}
			}
			t0 := time.Now()
			r := genFunction(u, pi, fc)
			if r.Err != nil {
				fmt.Printf("SKIP %-50s %v\n", key, r.Err)
				continue
			}
			var sel []*Obl
			for _, o := range r.VC.obls {
				if o.Kind != "cover" {
					sel = append(sel, o)
				}
			}
			results := solveAll(sel, d, *timeout, 6)
			bad := 0
			for _, rr := range results {
				if rr.Res.Status != "proved" {
					bad++
				}
			}
			aband := 0
			for _, n := range r.VC.notes {
				if strings.Contains(n, "path abandoned") {
					aband++
				}
			}
			fmt.Printf("%-4s %-50s obligations=%d failed=%d abandoned=%d %.1fs\n", map[bool]string{true: "OK", false: "FAIL"}[bad == 0], key, len(sel), bad, aband, time.Since(t0).Seconds())
			if *verbose {
				for _, n := range r.VC.notes {
					fmt.Println("      note:", n)
				}
			}
			for _, rr := range results {
				if rr.Res.Status == "proved" {
					continue
				}
				fmt.Printf("     %s %s: %s at %s\n", rr.Res.Status, rr.Obl.Name, rr.Obl.Desc, rr.Obl.Pos)
				if len(rr.Res.Model) > 0 {
					var ks []string
					for k := range rr.Res.Model {
						if !strings.HasPrefix(k, "(") {
							ks = append(ks, k)
						}
					}
					sort.Strings(ks)
					line := "       "
					for _, k := range ks {
						line += " " + k + "=" + rr.Res.Model[k]
					}
					if len(line) > 400 {
						line = line[:400]
					}
					fmt.Println(line)
				}
			}
		}
	}
	return 0
}
