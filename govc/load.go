package main

// Loading /repo packages, SSA construction and contract lookup.

import (
	"bufio"
	"fmt"
	"go/types"
	"os"
	"path/filepath"
	"sort"
	"strings"

	"golang.org/x/tools/go/packages"
	"golang.org/x/tools/go/ssa"
	"golang.org/x/tools/go/ssa/ssautil"
)

type PkgInfo struct {
	Path      string
	Dir       string // directory in /repo holding the contract file ("" if none)
	Types     *types.Package
	SSA       *ssa.Package
	Contracts *PkgContracts
	Local     bool // source files come from /repo (not the module cache)
}

type Universe struct {
	repo    string
	modDir  string
	prog    *ssa.Program
	pkgs    map[string]*PkgInfo
	effects map[*ssa.Function]ModSet
	sizes   types.Sizes
	modules map[string]string // module path -> dir
	ifaceContracts map[string]*FuncContract
	roots        map[string]bool // packages named by the load patterns
	finalGlobals map[string]bool
	finalIface   map[*ssa.Global]types.Type
}

func readModules(repo string) map[string]string {
	mods := map[string]string{}
	filepath.Walk(repo, func(p string, info os.FileInfo, err error) error {
		if err != nil {
			return nil
		}
		if info.IsDir() && (info.Name() == ".git" || info.Name() == "testdata" || info.Name() == "node_modules") {
			return filepath.SkipDir
		}
		if info.Name() == "go.mod" {
			f, err := os.Open(p)
			if err != nil {
				return nil
			}
			sc := bufio.NewScanner(f)
			for sc.Scan() {
				l := strings.TrimSpace(sc.Text())
				if strings.HasPrefix(l, "module ") {
					mods[strings.TrimSpace(l[7:])] = filepath.Dir(p)
					break
				}
			}
			f.Close()
		}
		return nil
	})
	return mods
}

// repoDirFor maps an import path to its directory under /repo.
func (u *Universe) repoDirFor(importPath string) string {
	best := ""
	for m := range u.modules {
		if (importPath == m || strings.HasPrefix(importPath, m+"/")) && len(m) > len(best) {
			best = m
		}
	}
	if best == "" {
		return ""
	}
	return filepath.Join(u.modules[best], strings.TrimPrefix(importPath, best))
}

func loadUniverse(repo, modDir string, patterns []string) (*Universe, error) {
	u := &Universe{repo: repo, modDir: modDir, pkgs: map[string]*PkgInfo{}, effects: map[*ssa.Function]ModSet{}, ifaceContracts: map[string]*FuncContract{}, finalGlobals: map[string]bool{}, finalIface: map[*ssa.Global]types.Type{}}
	u.modules = readModules(repo)
	cfg := &packages.Config{Mode: packages.LoadAllSyntax, Dir: modDir, Env: append(os.Environ(), "GOFLAGS=-mod=mod", "GOPROXY=off", "GOSUMDB=off", "GOTOOLCHAIN=local",
		"PATH=/opt/veriftools/go1.26.8/bin:"+os.Getenv("PATH"))}
	pkgs, err := packages.Load(cfg, patterns...)
	if err != nil {
		return nil, err
	}
	var errs []string
	packages.Visit(pkgs, nil, func(p *packages.Package) {
		for _, e := range p.Errors {
			errs = append(errs, e.Error())
		}
	})
	if len(errs) > 0 {
		sort.Strings(errs)
		if len(errs) > 5 {
			errs = errs[:5]
		}
		return nil, fmt.Errorf("package load errors: %s", strings.Join(errs, "; "))
	}
	u.roots = map[string]bool{}
	for _, p := range pkgs {
		u.roots[p.PkgPath] = true
	}
	prog, _ := ssautil.AllPackages(pkgs, ssa.InstantiateGenerics|ssa.GlobalDebug)
	prog.Build()
	u.prog = prog
	u.sizes = types.SizesFor("gc", "amd64")
	var loadErr error
	packages.Visit(pkgs, nil, func(p *packages.Package) {
		if p.Types == nil {
			return
		}
		pi := &PkgInfo{Path: p.PkgPath, Types: p.Types, SSA: prog.Package(p.Types)}
		for _, f := range p.GoFiles {
			if strings.HasPrefix(f, repo+"/") {
				pi.Local = true
			}
		}
		d := u.repoDirFor(p.PkgPath)
		if d == "" {
			// dependencies outside /repo: assumed contracts kept under /verif/stubs/<import path>/
			d = filepath.Join(stubsDir, p.PkgPath)
		}
		if d != "" {
			cf := filepath.Join(d, "verif_contracts.go")
			if _, err := os.Stat(cf); err == nil {
				pc, err := loadContracts(cf)
				if err != nil {
					loadErr = err
					return
				}
				pi.Contracts = pc
				pi.Dir = d
			}
		}
		u.pkgs[p.PkgPath] = pi
	})
	if loadErr != nil {
		return nil, loadErr
	}
	return u, nil
}

func (u *Universe) pkgOf(fn *ssa.Function) *PkgInfo {
	for fn != nil && fn.Pkg == nil {
		if fn.Origin() != nil {
			fn = fn.Origin()
		} else if fn.Parent() != nil {
			fn = fn.Parent()
		} else {
			return nil
		}
	}
	if fn == nil {
		return nil
	}
	return u.pkgs[fn.Pkg.Pkg.Path()]
}

func recvTypeName(fn *ssa.Function) string {
	r := fn.Signature.Recv()
	if r == nil {
		return ""
	}
	t := r.Type()
	if p, ok := t.(*types.Pointer); ok {
		t = p.Elem()
	}
	if n, ok := types.Unalias(t).(*types.Named); ok {
		return n.Obj().Name()
	}
	return ""
}

func contractKey(fn *ssa.Function) string {
	if fn.Parent() != nil {
		// closures: parent$n
		return contractKey(fn.Parent()) + fn.Name()[strings.LastIndex(fn.Name(), "$"):]
	}
	if r := recvTypeName(fn); r != "" {
		return r + "." + fn.Name()
	}
	return fn.Name()
}

func (u *Universe) contractFor(fn *ssa.Function) (*FuncContract, *PkgInfo) {
	if fn.Origin() != nil {
		fn = fn.Origin()
	}
	pi := u.pkgOf(fn)
	if pi == nil || pi.Contracts == nil {
		return nil, pi
	}
	if fn.Synthetic != "" && fn.Parent() == nil {
		return nil, pi
	}
	fc := pi.Contracts.Funcs[contractKey(fn)]
	return fc, pi
}

func (u *Universe) findFunc(pi *PkgInfo, fc *FuncContract) *ssa.Function {
	if pi.SSA == nil {
		return nil
	}
	name := fc.Fn
	closure := ""
	if i := strings.Index(name, "$"); i >= 0 {
		name, closure = name[:i], name[i:]
	}
	var fn *ssa.Function
	if fc.Recv == "" {
		fn = pi.SSA.Func(name)
	} else {
		obj := pi.Types.Scope().Lookup(fc.Recv)
		if obj == nil {
			return nil
		}
		named, ok := types.Unalias(obj.Type()).(*types.Named)
		if !ok {
			return nil
		}
		for i := 0; i < named.NumMethods(); i++ {
			if named.Method(i).Name() == name {
				fn = u.prog.FuncValue(named.Method(i))
			}
		}
	}
	if fn == nil || closure == "" {
		return fn
	}
	for _, af := range fn.AnonFuncs {
		if strings.HasSuffix(af.Name(), closure) {
			return af
		}
	}
	return nil
}

func (u *Universe) ifaceContract(c *ssa.CallCommon) *FuncContract {
	if !c.IsInvoke() {
		return nil
	}
	t := c.Value.Type()
	n, ok := types.Unalias(t).(*types.Named)
	if !ok {
		return nil
	}
	pi := u.pkgs[pkgPathOf(n)]
	if pi == nil || pi.Contracts == nil {
		return nil
	}
	return pi.Contracts.Funcs[n.Obj().Name()+"."+c.Method.Name()]
}

func pkgPathOf(n *types.Named) string {
	if n.Obj().Pkg() == nil {
		return ""
	}
	return n.Obj().Pkg().Path()
}

// finalGlobalComp reports whether a heap component belongs to an effectively-final global.
func (u *Universe) finalGlobalComp(comp string) bool { return false }
