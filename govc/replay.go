package main

// Replay of solver counterexamples against the real code (go test -overlay, nothing written to /repo).

import (
	"bytes"
	"context"
	"encoding/json"
	"fmt"
	"go/types"
	"math/big"
	"os"
	"os/exec"
	"path/filepath"
	"strings"
	"time"
)

type replayOut struct {
	path       string
	reproduced bool
}

type ParamInfo struct {
	Name string
	T    types.Type
}

func safeName(s string) string {
	return strings.NewReplacer("/", "_", "#", "-", "*", "", "(", "", ")", "", "$", "_", "@", "_", " ", "_").Replace(s)
}

func modelInt(s string) (*big.Int, bool) {
	s = strings.TrimSpace(s)
	neg := false
	if strings.HasPrefix(s, "(-") {
		neg = true
		s = strings.TrimSpace(strings.TrimSuffix(strings.TrimPrefix(s, "(-"), ")"))
	}
	if strings.HasPrefix(s, "#x") {
		v, ok := new(big.Int).SetString(s[2:], 16)
		return v, ok
	}
	if strings.HasPrefix(s, "#b") {
		v, ok := new(big.Int).SetString(s[2:], 2)
		return v, ok
	}
	v, ok := new(big.Int).SetString(s, 10)
	if ok && neg {
		v.Neg(v)
	}
	return v, ok
}

// sliceContents reads the bytes of a slice parameter from the model (first modelBytes bytes; the rest zero).
func sliceContents(or *OblResult, dir string, param string, n int) ([]byte, bool) {
	vc := or.Obl.VC
	res := make([]byte, n)
	if _, ok := vc.declared[quoteSym("H0.Mem.u8")]; !ok {
		return res, true
	}
	for k := 0; k < n && k < modelBytes; k++ {
		v, ok := or.Res.Model[byteTerm(vc.mode, param, k)]
		if !ok {
			return nil, false
		}
		b, ok := modelInt(v)
		if !ok {
			return nil, false
		}
		res[k] = byte(new(big.Int).And(b, big.NewInt(255)).Int64())
	}
	return res, true
}

// buildReplayTest renders a Go test that calls the real function on the model's inputs and, for a
// postcondition, evaluates the failed clause (compiled to Go) on the real result.
func buildReplayTest(or *OblResult, dir string) (src string, pkgDir string, ok bool, why string) {
	vc := or.Obl.VC
	if vc.target == nil || or.Res.Model == nil {
		return "", "", false, "no model or not a function obligation"
	}
	fn := vc.target
	if fn.Signature.Recv() != nil {
		return "", "", false, "method receivers are not rebuilt from models"
	}
	defer func() {
		if r := recover(); r != nil {
			if gu, isGU := r.(goUnsupported); isGU {
				src, pkgDir, ok, why = "", "", false, "clause not compilable to Go: "+gu.msg
				return
			}
			panic(r)
		}
	}()
	gg := &goGen{vars: map[string]goVar{}, old: map[string]goVar{}, pc: vc.pkg.Contracts, uni: vc.uni, pkg: fn.Pkg.Pkg, specs: map[string]string{}}
	var args []string
	var decls []string
	needBig := false
	for _, p := range fn.Params {
		name := "p." + p.Name()
		switch t := p.Type().Underlying().(type) {
		case *types.Basic:
			if t.Info()&types.IsInteger != 0 {
				v, ok := modelInt(or.Res.Model[quoteSym(name)])
				if !ok {
					return "", "", false, "no model value for " + p.Name()
				}
				it, _ := intTyOf(t)
				v = wrapBig(v, it)
				decls = append(decls, fmt.Sprintf("\tvar a_%s %s = %s", p.Name(), types.TypeString(p.Type(), qualifierFor(fn.Pkg.Pkg)), v.String()))
				args = append(args, "a_"+p.Name())
				gg.vars[p.Name()] = goVar{"gvAny(a_" + p.Name() + ")", gI}
				continue
			}
			if t.Info()&types.IsBoolean != 0 {
				decls = append(decls, fmt.Sprintf("\tvar a_%s = %s", p.Name(), strings.TrimSpace(or.Res.Model[quoteSym(name)])))
				args = append(args, "a_"+p.Name())
				gg.vars[p.Name()] = goVar{"a_" + p.Name(), gB}
				continue
			}
			return "", "", false, "parameter type " + p.Type().String() + " not rebuilt"
		case *types.Slice:
			if b, ok := t.Elem().Underlying().(*types.Basic); !ok || b.Kind() != types.Uint8 {
				return "", "", false, "parameter type " + p.Type().String() + " not rebuilt"
			}
			ln, ok1 := modelInt(or.Res.Model[quoteSym(name+".len")])
			cp, ok2 := modelInt(or.Res.Model[quoteSym(name+".cap")])
			arr, ok3 := modelInt(or.Res.Model[quoteSym(name+".arr")])
			if !ok1 || !ok2 || !ok3 {
				return "", "", false, "no model value for slice " + p.Name()
			}
			v := "a_" + p.Name()
			gg.vars[p.Name()] = goVar{v, gS}
			gg.old[p.Name()] = goVar{"old_" + p.Name(), gS}
			if arr.Sign() == 0 {
				decls = append(decls, fmt.Sprintf("\tvar %s []byte\n\told_%s := []byte(nil)", v, p.Name()))
				args = append(args, v)
				continue
			}
			if ln.Cmp(big.NewInt(1<<20)) > 0 {
				return "", "", false, "model slice too large to rebuild"
			}
			if cp.Cmp(big.NewInt(1<<20)) > 0 {
				// a huge capacity in the model only says "room beyond len"; a little room shows the same behaviour
				cp = new(big.Int).Add(ln, big.NewInt(64))
			}
			n := int(ln.Int64())
			content, ok := sliceContents(or, dir, name, n)
			if !ok {
				return "", "", false, "could not extract slice contents from the model"
			}
			var bs []string
			for _, c := range content {
				bs = append(bs, fmt.Sprintf("0x%02x", c))
			}
			decls = append(decls, fmt.Sprintf("\t%s := make([]byte, %d, %d)\n\tcopy(%s, []byte{%s})\n\told_%s := append([]byte(nil), %s...)", v, n, cp.Int64(), v, strings.Join(bs, ", "), p.Name(), v))
			args = append(args, v)
		case *types.Pointer:
			if typeKey(t.Elem()) != "big.Int" {
				return "", "", false, "parameter type " + p.Type().String() + " not rebuilt"
			}
			needBig = true
			ref, _ := modelInt(or.Res.Model[quoteSym(name)])
			if ref != nil && ref.Sign() == 0 {
				decls = append(decls, fmt.Sprintf("\tvar a_%s *big.Int", p.Name()))
			} else {
				val, ok := modelInt(or.Res.Model[fmt.Sprintf("(select H0.Big.val %s)", quoteSym(name))])
				if !ok {
					return "", "", false, "no model value for *big.Int " + p.Name()
				}
				decls = append(decls, fmt.Sprintf("\ta_%s, _ := new(big.Int).SetString(%q, 10)\n\told_%s := new(big.Int).Set(a_%s)", p.Name(), val.String(), p.Name(), p.Name()))
				gg.old[p.Name()] = goVar{"old_" + p.Name(), gI}
			}
			args = append(args, "a_"+p.Name())
			gg.vars[p.Name()] = goVar{"gvBig(a_" + p.Name() + ")", gI}
		default:
			return "", "", false, "parameter type " + p.Type().String() + " not rebuilt"
		}
	}
	nres := fn.Signature.Results().Len()
	gg.nres = nres
	for i := 0; i < nres; i++ {
		rt := fn.Signature.Results().At(i).Type()
		switch u := rt.Underlying().(type) {
		case *types.Basic:
			if u.Info()&types.IsInteger != 0 {
				gg.resK = append(gg.resK, gI)
			} else if u.Info()&types.IsBoolean != 0 {
				gg.resK = append(gg.resK, gB)
			} else {
				gg.resK = append(gg.resK, gP)
			}
		case *types.Slice:
			if b, ok := u.Elem().Underlying().(*types.Basic); ok && b.Kind() == types.Uint8 {
				gg.resK = append(gg.resK, gS)
			} else {
				gg.resK = append(gg.resK, gP)
			}
		case *types.Interface:
			if types.TypeString(rt, nil) == "error" {
				gg.resK = append(gg.resK, gE)
			} else {
				gg.resK = append(gg.resK, gP)
			}
		case *types.Pointer:
			if typeKey(u.Elem()) == "big.Int" {
				gg.resK = append(gg.resK, gI)
				needBig = true
			} else {
				gg.resK = append(gg.resK, gP)
			}
		default:
			gg.resK = append(gg.resK, gP)
		}
	}
	// logical variables
	var ghostDecl []string
	if or.Obl.FC != nil {
		for _, gv := range or.Obl.FC.GhostVars {
			v, ok := modelInt(or.Res.Model[quoteSym("g."+gv.Name)])
			if !ok {
				v = big.NewInt(0)
			}
			ghostDecl = append(ghostDecl, fmt.Sprintf("\tg_%s := gvS(%q)", gv.Name, v.String()))
			gg.vars[gv.Name] = goVar{"g_" + gv.Name, gI}
		}
	}
	check := ""
	if or.Obl.ClauseCE != nil && (or.Obl.Kind == "post") {
		if or.Obl.FC != nil && or.Obl.FC.Where != nil {
			w, _ := gg.expr(or.Obl.FC.Where.Expr)
			gg.vars["where"] = goVar{"(" + w + ")", gB}
		}
		// requires must hold for the input to count
		var pre []string
		if or.Obl.FC != nil {
			for _, rq := range or.Obl.FC.Requires {
				c, _ := gg.expr(rq.Expr)
				pre = append(pre, c)
			}
		}
		c, _ := gg.expr(or.Obl.ClauseCE)
		check = ""
		if len(pre) > 0 {
			check += fmt.Sprintf("\tif !(%s) {\n\t\tt.Skip(\"GOVC-REPLAY-PRECONDITION-FALSE\")\n\t}\n", strings.Join(pre, " && "))
		}
		check += fmt.Sprintf("\tif !(%s) {\n\t\tt.Fatalf(\"GOVC-REPLAY-POST-FAILED: %%s\", %q)\n\t}\n", c, or.Obl.Clause)
	}
	var sb strings.Builder
	fmt.Fprintf(&sb, "package %s\n\nimport (\n\t\"math/big\"\n\t\"reflect\"\n\t\"testing\"\n)\n\nvar _ = reflect.ValueOf\nvar _ = big.NewInt\n", fn.Pkg.Pkg.Name())
	sb.WriteString(goPrelude)
	for _, n := range gg.order {
		sb.WriteString(gg.specs[n])
	}
	_ = needBig
	fmt.Fprintf(&sb, "\n// replay of obligation %s\nfunc TestGovcReplay(t *testing.T) {\n", or.Obl.Name)
	sb.WriteString("\tdefer func() {\n\t\tif r := recover(); r != nil {\n\t\t\tt.Fatalf(\"GOVC-REPLAY-PANIC: %v\", r)\n\t\t}\n\t}()\n")
	for _, d := range decls {
		sb.WriteString(d + "\n")
	}
	for _, d := range ghostDecl {
		sb.WriteString(d + "\n")
	}
	for n := range gg.old {
		fmt.Fprintf(&sb, "\t_ = old_%s\n", n)
	}
	for _, gv := range ghostDecl {
		_ = gv
	}
	if or.Obl.FC != nil {
		for _, gv := range or.Obl.FC.GhostVars {
			fmt.Fprintf(&sb, "\t_ = g_%s\n", gv.Name)
		}
	}
	call := fmt.Sprintf("%s(%s)", fn.Name(), strings.Join(args, ", "))
	if nres == 0 {
		fmt.Fprintf(&sb, "\t%s\n", call)
	} else {
		var rs []string
		for i := 0; i < nres; i++ {
			rs = append(rs, fmt.Sprintf("r%d", i))
		}
		fmt.Fprintf(&sb, "\t%s := %s\n", strings.Join(rs, ", "), call)
		fmt.Fprintf(&sb, "\tt.Logf(\"GOVC-REPLAY-RESULT: %s\", %s)\n", strings.Repeat("%v ", nres), strings.Join(rs, ", "))
	}
	sb.WriteString(check)
	sb.WriteString("}\n")
	pd := vc.uni.repoDirFor(fn.Pkg.Pkg.Path())
	return sb.String(), pd, true, ""
}

func qualifierFor(p *types.Package) types.Qualifier {
	return func(o *types.Package) string {
		if o == p {
			return ""
		}
		return o.Name()
	}
}

// runOverlayTest runs a test file injected into pkgDir via -overlay. Returns output and whether it failed.
func runOverlayTest(repo, pkgDir, src, workDir, runPat string) (string, bool, error) {
	tf := filepath.Join(workDir, "zz_govc_replay_test.go")
	if err := os.WriteFile(tf, []byte(src), 0o644); err != nil {
		return "", false, err
	}
	ov := map[string]map[string]string{"Replace": {filepath.Join(pkgDir, "zz_govc_replay_test.go"): tf}}
	ob, _ := json.Marshal(ov)
	of := filepath.Join(workDir, "overlay.json")
	os.WriteFile(of, ob, 0o644)
	ctx, cancel := context.WithTimeout(context.Background(), 180*time.Second)
	defer cancel()
	cmd := exec.CommandContext(ctx, "go", "test", "-mod=mod", "-overlay", of, "-vet=off", "-count=1", "-timeout", "60s", "-run", runPat, ".")
	cmd.Dir = pkgDir
	cmd.Env = append(os.Environ(), "GOFLAGS=-mod=mod", "GOPROXY=off", "GOSUMDB=off", "GOTOOLCHAIN=local")
	var out bytes.Buffer
	cmd.Stdout = &out
	cmd.Stderr = &out
	err := cmd.Run()
	return out.String(), err != nil, nil
}

func writeReplay(repo, replayDir, prop, obl, reason string, or *OblResult, dir string) replayOut {
	rec := map[string]any{"property": prop, "obligation": obl, "reason": reason}
	reproduced := false
	if or != nil {
		rec["description"] = or.Obl.Desc
		rec["position"] = or.Obl.Pos.String()
		rec["clause"] = or.Obl.Clause
		rec["solver_outputs"] = or.Res.Outputs
		rec["solver_status"] = or.Res.Status
		rec["model"] = or.Res.Model
		if b, err := os.ReadFile(or.Res.File); err == nil {
			if len(b) > 400000 {
				b = append(b[:400000], []byte("\n; ... truncated ...\n")...)
			}
			rec["smt_query"] = string(b)
		}
		if or.Res.Status == "refuted" {
			src, pkgDir, ok, why := buildReplayTest(or, dir)
			if !ok {
				rec["replay"] = map[string]any{"attempted": false, "why": why}
			} else {
				out, failed, err := runOverlayTest(repo, pkgDir, src, dir, "^TestGovcReplay$")
				rp := map[string]any{"attempted": true, "test_source": src, "package_dir": pkgDir, "output": out,
					"command": "go test -mod=mod -overlay <ov.json> -vet=off -count=1 -timeout 60s -run ^TestGovcReplay$ ."}
				if err != nil {
					rp["error"] = err.Error()
				}
				switch or.Obl.Kind {
				case "bounds", "nil", "div", "alloc", "panic", "shift":
					if failed && strings.Contains(out, "GOVC-REPLAY-PANIC") {
						reproduced = true
					}
				case "post":
					if failed && (strings.Contains(out, "GOVC-REPLAY-POST-FAILED") || strings.Contains(out, "GOVC-REPLAY-PANIC")) && !strings.Contains(out, "GOVC-SPEC-") {
						reproduced = true
					}
				}
				rp["reproduced"] = reproduced
				rec["replay"] = rp
			}
		}
	}
	rec["no_failing_input_found"] = !reproduced
	path := filepath.Join(replayDir, safeName(obl)+".json")
	b, _ := json.MarshalIndent(rec, "", " ")
	os.WriteFile(path, b, 0o644)
	return replayOut{path: path, reproduced: reproduced}
}

// confirmKnown re-runs the recorded witness of a known finding on the real code; true when it still fails.
func confirmKnown(repo, verifDir string, kf *KnownFinding, dir string) (bool, string) {
	src, err := os.ReadFile(filepath.Join(verifDir, kf.ReplayTest))
	if err != nil {
		return false, err.Error()
	}
	out, failed, err := runOverlayTest(repo, filepath.Join(repo, kf.Package), string(src), dir, "^TestGovcKnown")
	if err != nil {
		return false, err.Error()
	}
	if failed && strings.Contains(out, "GOVC-KNOWN-REPRODUCED") {
		return true, out
	}
	if len(out) > 400 {
		out = out[len(out)-400:]
	}
	return false, out
}
