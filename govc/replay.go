package main

// Replay of solver counterexamples against the real code (go test -overlay, nothing written to /repo).

import (
	"bytes"
	"context"
	"encoding/json"
	"fmt"
	"go/types"
	"math/big"
	"os"
	"os/exec"
	"path/filepath"
	"strings"
	"time"
)

type replayOut struct {
	path       string
	reproduced bool
}

type ParamInfo struct {
	Name string
	T    types.Type
}

func safeName(s string) string {
	return strings.NewReplacer("/", "_", "#", "-", "*", "", "(", "", ")", "", "$", "_", "@", "_", " ", "_").Replace(s)
}

func modelInt(s string) (*big.Int, bool) {
	s = strings.TrimSpace(s)
	neg := false
	if strings.HasPrefix(s, "(-") {
		neg = true
		s = strings.TrimSpace(strings.TrimSuffix(strings.TrimPrefix(s, "(-"), ")"))
	}
	if strings.HasPrefix(s, "#x") {
		v, ok := new(big.Int).SetString(s[2:], 16)
		return v, ok
	}
	if strings.HasPrefix(s, "#b") {
		v, ok := new(big.Int).SetString(s[2:], 2)
		return v, ok
	}
	v, ok := new(big.Int).SetString(s, 10)
	if ok && neg {
		v.Neg(v)
	}
	return v, ok
}

// sliceContents reads the bytes of a slice parameter from the model (first modelBytes bytes; the rest zero).
func sliceContents(or *OblResult, dir string, param string, n int) ([]byte, bool) {
	vc := or.Obl.VC
	res := make([]byte, n)
	if _, ok := vc.declared[quoteSym("H0.Mem.u8")]; !ok {
		return res, true
	}
	for k := 0; k < n && k < modelBytes; k++ {
		v, ok := or.Res.Model[byteTerm(vc.mode, param, k)]
		if !ok {
			return nil, false
		}
		b, ok := modelInt(v)
		if !ok {
			return nil, false
		}
		res[k] = byte(new(big.Int).And(b, big.NewInt(255)).Int64())
	}
	return res, true
}

// buildReplayTest renders a Go test that calls the real function on the model's inputs.
func buildReplayTest(or *OblResult, dir string) (src string, pkgDir string, ok bool, why string) {
	vc := or.Obl.VC
	if vc.target == nil || or.Res.Model == nil {
		return "", "", false, "no model or not a function obligation"
	}
	fn := vc.target
	if fn.Signature.Recv() != nil {
		return "", "", false, "method receivers are not rebuilt from models"
	}
	var args []string
	var decls []string
	for _, p := range fn.Params {
		name := "p." + p.Name()
		switch t := p.Type().Underlying().(type) {
		case *types.Basic:
			if t.Info()&types.IsInteger != 0 {
				v, ok := modelInt(or.Res.Model[quoteSym(name)])
				if !ok {
					return "", "", false, "no model value for " + p.Name()
				}
				it, _ := intTyOf(t)
				v = wrapBig(v, it)
				args = append(args, fmt.Sprintf("%s(%s)", types.TypeString(p.Type(), qualifierFor(fn.Pkg.Pkg)), v.String()))
				continue
			}
			if t.Info()&types.IsBoolean != 0 {
				args = append(args, strings.TrimSpace(or.Res.Model[quoteSym(name)]))
				continue
			}
			return "", "", false, "parameter type " + p.Type().String() + " not rebuilt"
		case *types.Slice:
			if b, ok := t.Elem().Underlying().(*types.Basic); !ok || b.Kind() != types.Uint8 {
				return "", "", false, "parameter type " + p.Type().String() + " not rebuilt"
			}
			ln, ok1 := modelInt(or.Res.Model[quoteSym(name+".len")])
			cp, ok2 := modelInt(or.Res.Model[quoteSym(name+".cap")])
			arr, ok3 := modelInt(or.Res.Model[quoteSym(name+".arr")])
			if !ok1 || !ok2 || !ok3 {
				return "", "", false, "no model value for slice " + p.Name()
			}
			if arr.Sign() == 0 {
				args = append(args, "[]byte(nil)")
				continue
			}
			if ln.Cmp(big.NewInt(1<<20)) > 0 {
				return "", "", false, "model slice too large to rebuild"
			}
			if cp.Cmp(big.NewInt(1<<20)) > 0 {
				// a huge capacity in the model only says "room beyond len"; a little room shows the same behaviour
				cp = new(big.Int).Add(ln, big.NewInt(64))
			}
			n := int(ln.Int64())
			content, ok := sliceContents(or, dir, name, n)
			if !ok {
				return "", "", false, "could not extract slice contents from the model"
			}
			var bs []string
			for _, c := range content {
				bs = append(bs, fmt.Sprintf("0x%02x", c))
			}
			v := "a_" + p.Name()
			decls = append(decls, fmt.Sprintf("\t%s := make([]byte, %d, %d)\n\tcopy(%s, []byte{%s})", v, n, cp.Int64(), v, strings.Join(bs, ", ")))
			args = append(args, v)
		default:
			return "", "", false, "parameter type " + p.Type().String() + " not rebuilt"
		}
	}
	var sb strings.Builder
	fmt.Fprintf(&sb, "package %s\n\nimport \"testing\"\n\n", fn.Pkg.Pkg.Name())
	fmt.Fprintf(&sb, "// replay of obligation %s\nfunc TestGovcReplay(t *testing.T) {\n", or.Obl.Name)
	sb.WriteString("\tdefer func() {\n\t\tif r := recover(); r != nil {\n\t\t\tt.Fatalf(\"GOVC-REPLAY-PANIC: %v\", r)\n\t\t}\n\t}()\n")
	for _, d := range decls {
		sb.WriteString(d + "\n")
	}
	nres := fn.Signature.Results().Len()
	call := fmt.Sprintf("%s(%s)", fn.Name(), strings.Join(args, ", "))
	if nres == 0 {
		fmt.Fprintf(&sb, "\t%s\n", call)
	} else {
		var rs []string
		for i := 0; i < nres; i++ {
			rs = append(rs, fmt.Sprintf("r%d", i))
		}
		fmt.Fprintf(&sb, "\t%s := %s\n", strings.Join(rs, ", "), call)
		fmt.Fprintf(&sb, "\tt.Logf(\"GOVC-REPLAY-RESULT: %s\", %s)\n", strings.Repeat("%v ", nres), strings.Join(rs, ", "))
	}
	sb.WriteString("}\n")
	pd := vc.uni.repoDirFor(fn.Pkg.Pkg.Path())
	return sb.String(), pd, true, ""
}

func qualifierFor(p *types.Package) types.Qualifier {
	return func(o *types.Package) string {
		if o == p {
			return ""
		}
		return o.Name()
	}
}

// runOverlayTest runs a test file injected into pkgDir via -overlay. Returns output and whether it failed.
func runOverlayTest(repo, pkgDir, src, workDir, runPat string) (string, bool, error) {
	tf := filepath.Join(workDir, "zz_govc_replay_test.go")
	if err := os.WriteFile(tf, []byte(src), 0o644); err != nil {
		return "", false, err
	}
	ov := map[string]map[string]string{"Replace": {filepath.Join(pkgDir, "zz_govc_replay_test.go"): tf}}
	ob, _ := json.Marshal(ov)
	of := filepath.Join(workDir, "overlay.json")
	os.WriteFile(of, ob, 0o644)
	ctx, cancel := context.WithTimeout(context.Background(), 180*time.Second)
	defer cancel()
	cmd := exec.CommandContext(ctx, "go", "test", "-mod=mod", "-overlay", of, "-vet=off", "-count=1", "-timeout", "60s", "-run", runPat, ".")
	cmd.Dir = pkgDir
	cmd.Env = append(os.Environ(), "GOFLAGS=-mod=mod", "GOPROXY=off", "GOSUMDB=off", "GOTOOLCHAIN=local")
	var out bytes.Buffer
	cmd.Stdout = &out
	cmd.Stderr = &out
	err := cmd.Run()
	return out.String(), err != nil, nil
}

func writeReplay(repo, replayDir, prop, obl, reason string, or *OblResult, dir string) replayOut {
	rec := map[string]any{"property": prop, "obligation": obl, "reason": reason}
	reproduced := false
	if or != nil {
		rec["description"] = or.Obl.Desc
		rec["position"] = or.Obl.Pos.String()
		rec["clause"] = or.Obl.Clause
		rec["solver_outputs"] = or.Res.Outputs
		rec["solver_status"] = or.Res.Status
		rec["model"] = or.Res.Model
		if b, err := os.ReadFile(or.Res.File); err == nil {
			if len(b) > 400000 {
				b = append(b[:400000], []byte("\n; ... truncated ...\n")...)
			}
			rec["smt_query"] = string(b)
		}
		if or.Res.Status == "refuted" {
			src, pkgDir, ok, why := buildReplayTest(or, dir)
			if !ok {
				rec["replay"] = map[string]any{"attempted": false, "why": why}
			} else {
				out, failed, err := runOverlayTest(repo, pkgDir, src, dir, "^TestGovcReplay$")
				rp := map[string]any{"attempted": true, "test_source": src, "package_dir": pkgDir, "output": out,
					"command": "go test -mod=mod -overlay <ov.json> -vet=off -count=1 -timeout 60s -run ^TestGovcReplay$ ."}
				if err != nil {
					rp["error"] = err.Error()
				}
				switch or.Obl.Kind {
				case "bounds", "nil", "div", "alloc", "panic", "shift":
					if failed && strings.Contains(out, "GOVC-REPLAY-PANIC") {
						reproduced = true
					}
				}
				rp["reproduced"] = reproduced
				rec["replay"] = rp
			}
		}
	}
	rec["no_failing_input_found"] = !reproduced
	path := filepath.Join(replayDir, safeName(obl)+".json")
	b, _ := json.MarshalIndent(rec, "", " ")
	os.WriteFile(path, b, 0o644)
	return replayOut{path: path, reproduced: reproduced}
}

// confirmKnown re-runs the recorded witness of a known finding on the real code; true when it still fails.
func confirmKnown(repo, verifDir string, kf *KnownFinding, dir string) (bool, string) {
	src, err := os.ReadFile(filepath.Join(verifDir, kf.ReplayTest))
	if err != nil {
		return false, err.Error()
	}
	out, failed, err := runOverlayTest(repo, filepath.Join(repo, kf.Package), string(src), dir, "^TestGovcKnown")
	if err != nil {
		return false, err.Error()
	}
	if failed && strings.Contains(out, "GOVC-KNOWN-REPRODUCED") {
		return true, out
	}
	if len(out) > 400 {
		out = out[len(out)-400:]
	}
	return false, out
}
