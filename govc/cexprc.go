package main

// Compilation of contract expressions to symbolic values in an execution context.

import (
	"go/ast"
	"fmt"
	"go/constant"
	"go/token"
	"go/types"
	"math/big"
	"strconv"
	"strings"

	"golang.org/x/tools/go/ssa"
)

type CEnv struct {
	x         *Exec
	fr        *Frame
	st        *State // current heap
	old       *State // heap for old(...)
	pkg       *PkgInfo
	vars      map[string]Value
	lookup    func(string) (Value, bool)
	bound     map[string]Value
	mode      Mode
	hasResult bool
	result    Value
	sig       *types.Signature
	inOld     bool
	specMode  bool
	whereExpr *CE  // callee's where-clause when evaluating its ensures at a call site
	ghostsOK  bool // the frame's logical variables are in scope (own contract, not a callee's)
	goal      bool // polarity: true when the formula is to be proved, false when assumed
	calleeEnv bool // the clause belongs to a callee (names are the callee's parameters, not the frame's)
	mixed     int  // >0 inside a context of both polarities
}

// flipped evaluates f with the opposite polarity.
func (c *CEnv) flipped(f func() *Term) *Term {
	c.goal = !c.goal
	defer func() { c.goal = !c.goal }()
	return f()
}

func (c *CEnv) bothPolarities(f func() *Term) *Term {
	c.mixed++
	defer func() { c.mixed-- }()
	return f()
}

func (c *CEnv) asGoal() *CEnv   { c.goal = true; return c }
func (c *CEnv) asAssume() *CEnv { c.goal = false; return c }

func (c *CEnv) heap() *State {
	if c.inOld && c.old != nil {
		return c.old
	}
	return c.st
}

func (c *CEnv) fail(f string, a ...any) {
	panic(engineErr{"contract expression: " + fmt.Sprintf(f, a...)})
}

func (c *CEnv) evalBool(e *CE) *Term {
	v := c.eval(e)
	if v.K != KScalar || v.X == nil || v.X.S != SBool {
		c.fail("expected boolean: %s", e)
	}
	return v.X
}

// specIntMath: in mode int a spec-level "int" (spec/lemma/ghost parameters, typed quantifiers) is a
// mathematical integer, not Go's 64-bit int. Set per VC by newVC.
var specIntMath bool

func goBasicByName(name string) (types.Type, bool) {
	if name == "int" {
		return types.Typ[types.Int], true
	}
	return basicByName(name)
}

func basicByName(name string) (types.Type, bool) {
	switch name {
	case "int":
		if specIntMath {
			return nil, false
		}
		return types.Typ[types.Int], true
	case "int8":
		return types.Typ[types.Int8], true
	case "int16":
		return types.Typ[types.Int16], true
	case "int32":
		return types.Typ[types.Int32], true
	case "int64":
		return types.Typ[types.Int64], true
	case "uint":
		return types.Typ[types.Uint], true
	case "uint8", "byte":
		return types.Typ[types.Uint8], true
	case "uint16":
		return types.Typ[types.Uint16], true
	case "uint32":
		return types.Typ[types.Uint32], true
	case "uint64":
		return types.Typ[types.Uint64], true
	case "bool":
		return types.Typ[types.Bool], true
	}
	return nil, false
}

// specSort: SMT sort of a spec-level type name
func (m Mode) specSort(name string) string {
	if t, ok := goBasicByName(name); ok {
		return m.leafSort(t)
	}
	switch name {
	case "seq":
		return SArr(m.ixSort(), m.intSort(IntTy{8, false}))
	case "intseq":
		return SArr(m.ixSort(), m.ixSort())
	case "ref":
		return refSort
	case "mathint":
		return SInt
	}
	return refSort
}

func (c *CEnv) mathInt(t *Term) Value { return Value{K: KScalar, X: t} }

func (c *CEnv) intTy(v Value) (IntTy, bool) {
	if v.T != nil {
		return intTyOf(v.T)
	}
	if w, ok := isBVSort(v.X.S); ok {
		return IntTy{w, false}, true
	}
	return IntTy{}, false
}

func (c *CEnv) lit(n *big.Int, hint *Value) Value {
	if c.mode == ModeBV {
		w := 64
		var t types.Type
		if hint != nil && hint.X != nil {
			if ww, ok := isBVSort(hint.X.S); ok {
				w = ww
				t = hint.T
			}
		}
		return Value{K: KScalar, T: t, X: BVLitBig(n, w)}
	}
	return Value{K: KScalar, X: IntLitBig(n)}
}

func (c *CEnv) eval(e *CE) Value { return c.evalH(e, nil) }

func (c *CEnv) evalH(e *CE, hint *Value) Value {
	m := c.mode
	switch e.Kind {
	case "num":
		return c.lit(e.Num, hint)
	case "bool":
		return Value{K: KScalar, X: BoolLit(e.Name == "true")}
	case "nil":
		if hint != nil {
			switch hint.K {
			case KPtr:
				return Value{T: hint.T, K: KPtr, Loc: &Loc{Prefix: hint.Loc.Prefix, Root: nilRef, Elems: hint.Loc.Elems, T: hint.Loc.T}}
			case KSlice:
				return Value{T: hint.T, K: KSlice, Loc: &Loc{Prefix: hint.Loc.Prefix, Root: nilRef, T: hint.Loc.T}, Off: m.ix(0), Len: m.ix(0), Cap: m.ix(0)}
			case KIface, KMap, KFunc:
				return Value{T: hint.T, K: hint.K, X: nilRef}
			}
		}
		return Value{K: KIface, X: nilRef}
	case "str":
		return c.x.stringConst(types.Typ[types.String], e.Name)
	case "id":
		return c.ident(e, hint)
	case "old":
		if c.old == nil {
			c.fail("old() not available here: %s", e)
		}
		saved := c.inOld
		c.inOld = true
		v := c.evalH(e.Args[0], hint)
		c.inOld = saved
		return v
	case "un":
		if e.Name == "!" {
			return Value{K: KScalar, X: Not(c.flipped(func() *Term { return c.evalBool(e.Args[0]) }))}
		}
		if e.Name == "*" {
			// *p: the value the pointer refers to in the current heap
			a := c.eval(e.Args[0])
			if a.K != KPtr {
				c.fail("* of a non-pointer in %s", e)
			}
			return c.x.loadLoc(c.heap(), a.Loc)
		}
		a := c.evalH(e.Args[0], hint)
		switch e.Name {
		case "!":
			return Value{K: KScalar, X: Not(c.flipped(func() *Term { return c.evalBool(e.Args[0]) }))}
		case "-":
			if m == ModeBV {
				return Value{K: KScalar, T: a.T, X: App("bvneg", a.X.S, a.X)}
			}
			return Value{K: KScalar, T: a.T, X: iNeg(a.X)}
		case "^":
			it, ok := c.intTy(a)
			if !ok {
				c.fail("^ needs a typed operand: %s", e)
			}
			return Value{K: KScalar, T: a.T, X: m.compl(a.X, it)}
		}
	case "tern":
		cond := c.bothPolarities(func() *Term { return c.evalBool(e.Args[0]) })
		a := c.evalH(e.Args[1], hint)
		b := c.evalH(e.Args[2], &a)
		if a.K == KScalar && a.X != nil && e.Args[1].Kind == "num" {
			a = c.evalH(e.Args[1], &b)
		}
		if e.Args[1].Kind == "nil" && a.K != b.K {
			a = c.evalH(e.Args[1], &b)
		}
		if e.Args[2].Kind == "nil" && a.K != b.K {
			b = c.evalH(e.Args[2], &a)
		}
		return c.x.mergeValues(cond, a, b)
	case "bin":
		return c.binary(e, hint)
	case "field":
		return c.field(e)
	case "index":
		return c.index(e)
	case "slice":
		return c.sliceExpr(e)
	case "call":
		return c.callExpr(e, hint)
	case "mcall":
		return c.methodCall(e)
	case "forall", "exists":
		return c.quant(e)
	}
	c.fail("cannot evaluate %s", e)
	return Value{}
}

func (c *CEnv) ident(e *CE, hint *Value) Value {
	name := e.Name
	if v, ok := c.bound[name]; ok {
		return v
	}
	if c.inOld && !c.calleeEnv && c.fr != nil && c.fr.fn != nil {
		// old(x) of a parameter is its entry value, even when x was reassigned
		for i, p := range c.fr.fn.Params {
			if p.Name() == name && i < len(c.fr.params) {
				return c.fr.params[i]
			}
		}
	}
	if v, ok := c.vars[name]; ok {
		return v
	}
	switch name {
	case "result":
		if !c.hasResult {
			// inside the body (loop invariant, call-site assertion) "result" can only be a
			// source-level variable of that name
			if c.lookup != nil {
				if v, ok := c.lookup(name); ok {
					return v
				}
			}
			c.fail("result not available")
		}
		return c.result
	case "err":
		if c.hasResult {
			if c.result.K == KTuple && len(c.result.Fields) > 0 {
				return c.result.Fields[len(c.result.Fields)-1]
			}
			return c.result
		}
	}
	if c.inOld && !c.calleeEnv && c.fr != nil && c.fr.fn != nil && !c.specMode {
		// old(x) of a captured variable: the content of its cell at entry
		for _, fv := range c.fr.fn.FreeVars {
			if fv.Name() == name {
				if v, ok := c.fr.env[fv]; ok {
					if v.K == KPtr {
						return c.x.loadLoc(c.heap(), v.Loc)
					}
					return v
				}
			}
		}
	}
	if c.lookup != nil {
		if v, ok := c.lookup(name); ok {
			return v
		}
	}
	if c.fr != nil && c.fr.top != nil && c.ghostsOK {
		if v, ok := c.fr.top.ghosts[name]; ok {
			return v
		}
	}
	// variables a closure captures (by reference: their current value in the heap the clause looks at)
	if c.fr != nil && c.fr.fn != nil && !c.specMode {
		for _, fv := range c.fr.fn.FreeVars {
			if fv.Name() == name {
				if v, ok := c.fr.env[fv]; ok {
					if v.K == KPtr {
						return c.x.loadLoc(c.heap(), v.Loc)
					}
					return v
				}
			}
		}
	}
	if name == "where" {
		if c.whereExpr != nil {
			// a callee's hypothesis, expanded in the caller's context
			return Value{K: KScalar, X: c.evalBool(c.whereExpr)}
		}
		if c.fr != nil && c.fr.top != nil && c.ghostsOK && c.fr.top.whereSym != nil {
			return Value{K: KScalar, X: c.fr.top.whereSym}
		}
	}
	// package-level constants
	if c.pkg != nil {
		if v, ok := c.pkgConst(c.pkg.Types, name, hint); ok {
			return v
		}
		// package-level variable: its current value in the heap
		if c.pkg.SSA != nil && !c.specMode {
			if g := c.pkg.SSA.Var(name); g != nil {
				p := c.x.get(c.fr, c.heap(), g)
				return c.x.loadLoc(c.heap(), p.Loc)
			}
		}
	}
	c.fail("unknown identifier %q", name)
	return Value{}
}

func (c *CEnv) pkgConst(p *types.Package, name string, hint *Value) (Value, bool) {
	obj := p.Scope().Lookup(name)
	if obj == nil {
		return Value{}, false
	}
	cn, ok := obj.(*types.Const)
	if !ok {
		return Value{}, false
	}
	switch cn.Val().Kind() {
	case constant.Int:
		n, _ := new(big.Int).SetString(cn.Val().ExactString(), 10)
		if it, ok := intTyOf(cn.Type()); ok && cn.Type().Underlying().(*types.Basic).Info()&types.IsUntyped == 0 {
			return Value{K: KScalar, T: cn.Type(), X: c.mode.lit(n, it)}, true
		}
		return c.lit(n, hint), true
	case constant.Bool:
		return Value{K: KScalar, X: BoolLit(constant.BoolVal(cn.Val()))}, true
	case constant.String:
		return c.x.stringConst(cn.Type(), constant.StringVal(cn.Val())), true
	case constant.Float:
		if i := constant.ToInt(cn.Val()); i.Kind() == constant.Int {
			n, _ := new(big.Int).SetString(i.ExactString(), 10)
			return c.lit(n, hint), true
		}
	}
	return Value{}, false
}

func isLitCE(e *CE) bool {
	return e.Kind == "num" || e.Kind == "nil" || e.Kind == "un" && e.Name == "-" && e.Args[0].Kind == "num"
}

func (c *CEnv) binary(e *CE, hint *Value) Value {
	m := c.mode
	op := e.Name
	switch op {
	case "&&":
		return Value{K: KScalar, X: And(c.evalBool(e.Args[0]), c.evalBool(e.Args[1]))}
	case "||":
		return Value{K: KScalar, X: Or(c.evalBool(e.Args[0]), c.evalBool(e.Args[1]))}
	case "==>":
		l := c.flipped(func() *Term { return c.evalBool(e.Args[0]) })
		return Value{K: KScalar, X: Implies(l, c.evalBool(e.Args[1]))}
	case "<==>":
		l := c.bothPolarities(func() *Term { return c.evalBool(e.Args[0]) })
		r := c.bothPolarities(func() *Term { return c.evalBool(e.Args[1]) })
		return Value{K: KScalar, X: Eq(l, r)}
	}
	var a, b Value
	isCmp := op == "==" || op == "!=" || op == "<" || op == "<=" || op == ">" || op == ">="
	h := hint
	if isCmp {
		h = nil
	}
	if op == "==" || op == "!=" {
		// operands may be formulas (b == (forall ...)): both polarities
		c.mixed++
		defer func() { c.mixed-- }()
	}
	if isLitCE(e.Args[0]) && !isLitCE(e.Args[1]) {
		b = c.evalH(e.Args[1], h)
		a = c.evalH(e.Args[0], &b)
	} else {
		a = c.evalH(e.Args[0], h)
		if op == "<<" || op == ">>" {
			b = c.evalH(e.Args[1], nil)
		} else {
			b = c.evalH(e.Args[1], &a)
		}
	}
	switch op {
	case "==", "!=":
		if a.K != b.K && (a.K == KIface || b.K == KIface) {
			// nil literal against pointer/slice
			if a.K == KIface && isNilLit(a.X) {
				a = c.evalH(&CE{Kind: "nil"}, &b)
			} else if b.K == KIface && isNilLit(b.X) {
				b = c.evalH(&CE{Kind: "nil"}, &a)
			}
		}
		if a.K == KScalar && b.K == KScalar && a.X.S != b.X.S {
			c.fail("comparison of different sorts in %s (%s vs %s)", e, a.X.S, b.X.S)
		}
		eq := c.x.valuesEqual(c.fr, c.heap(), a, b, token.NoPos)
		if op == "!=" {
			eq = Not(eq)
		}
		return Value{K: KScalar, X: eq}
	}
	if a.K != KScalar || b.K != KScalar {
		c.fail("arithmetic on non-scalar in %s", e)
	}
	tok := map[string]token.Token{"<": token.LSS, "<=": token.LEQ, ">": token.GTR, ">=": token.GEQ, "+": token.ADD, "-": token.SUB,
		"*": token.MUL, "/": token.QUO, "%": token.REM, "&": token.AND, "|": token.OR, "^": token.XOR, "<<": token.SHL, ">>": token.SHR, "&^": token.AND_NOT}[op]
	rt := a.T
	if rt == nil {
		rt = b.T
	}
	if m == ModeBV {
		it, ok := c.intTy(a)
		if a.T == nil && b.T != nil {
			it, ok = c.intTy(b)
		}
		if !ok {
			c.fail("cannot type %s in mode bv", e)
		}
		if isCmp {
			if a.X.S != b.X.S {
				c.fail("width mismatch in %s (%s vs %s)", e, a.X.S, b.X.S)
			}
			return Value{K: KScalar, X: m.cmp(tok, a.X, b.X, it)}
		}
		if op == "<<" || op == ">>" {
			st2, ok2 := c.intTy(b)
			if !ok2 {
				st2 = IntTy{64, false}
			}
			r, _, err := m.shiftop(tok, a.X, b.X, it, st2)
			if err != nil {
				c.fail("%v", err)
			}
			return Value{K: KScalar, T: rt, X: r}
		}
		if a.X.S != b.X.S {
			c.fail("width mismatch in %s (%s vs %s)", e, a.X.S, b.X.S)
		}
		r, err := m.binop(tok, a.X, b.X, it, BitInfo{}, BitInfo{})
		if err != nil {
			c.fail("%v", err)
		}
		return Value{K: KScalar, T: rt, X: r}
	}
	// mode int: mathematical integers
	if isCmp {
		return Value{K: KScalar, X: iCmp(op, a.X, b.X)}
	}
	unsignedT := func(v Value) bool {
		if v.T == nil {
			return false
		}
		it, ok := intTyOf(v.T)
		return ok && !it.Signed
	}
	// contract arithmetic never wraps, so its results are untyped mathematical integers:
	// a later conversion uint64(e) must reduce modulo 2^64 whatever the size of e
	rtBits := rt
	rt = nil
	_ = rtBits
	switch op {
	case "+":
		return Value{K: KScalar, T: rt, X: iAdd(a.X, b.X)}
	case "-":
		return Value{K: KScalar, T: rt, X: iSub(a.X, b.X)}
	case "*":
		return Value{K: KScalar, T: rt, X: iMul(a.X, b.X)}
	case "/":
		if unsignedT(a) && (unsignedT(b) || isLitCE(e.Args[1])) {
			return Value{K: KScalar, T: rt, X: iDivE(a.X, b.X)}
		}
		return Value{K: KScalar, T: rt, X: truncDiv(a.X, b.X, IntTy{64, true})}
	case "%":
		if unsignedT(a) && (unsignedT(b) || isLitCE(e.Args[1])) {
			return Value{K: KScalar, T: rt, X: iModE(a.X, b.X)}
		}
		return Value{K: KScalar, T: rt, X: iSub(a.X, iMul(b.X, truncDiv(a.X, b.X, IntTy{64, true})))}
	case "<<", ">>":
		k, ok := litValue(b.X)
		if !ok || !k.IsInt64() || k.Int64() > 4096 {
			// symbolic count: table over 0..63 (mathematical shift)
			var r *Term = IntLit(0)
			if op == "<<" {
				r = iMul(a.X, IntLitBig(pow2(64)))
			}
			for s := 63; s >= 0; s-- {
				var t *Term
				if op == "<<" {
					t = iMul(a.X, IntLitBig(pow2(s)))
				} else {
					t = iDivE(a.X, IntLitBig(pow2(s)))
				}
				r = Ite(Eq(b.X, IntLit(int64(s))), t, r)
			}
			return Value{K: KScalar, T: rt, X: r}
		}
		if op == "<<" {
			return Value{K: KScalar, T: rt, X: iMul(a.X, IntLitBig(pow2(int(k.Int64()))))}
		}
		return Value{K: KScalar, T: rt, X: iDivE(a.X, IntLitBig(pow2(int(k.Int64()))))}
	case "&", "|", "^", "&^":
		// constants on one side: exact lowering over mathematical (non-negative) integers, 64-bit window
		it := IntTy{64, false}
		if a.T != nil {
			if t, ok := intTyOf(a.T); ok {
				it = t
			}
		} else if b.T != nil {
			if t, ok := intTyOf(b.T); ok {
				it = t
			}
		}
		r, err := m.binop(tok, a.X, b.X, IntTy{it.W, false}, BitInfo{64, 0}, BitInfo{64, 0})
		if err != nil {
			c.fail("%v in %s", err, e)
		}
		return Value{K: KScalar, T: rt, X: r}
	}
	c.fail("unsupported operator %s", op)
	return Value{}
}

func (c *CEnv) field(e *CE) Value {
	if l := c.ghostLoc(e); l != nil {
		return c.x.loadLoc(c.heap(), l)
	}
	// package-qualified constant?
	if e.Args[0].Kind == "id" && c.pkg != nil {
		if _, isVar := c.tryIdent(e.Args[0].Name); !isVar {
			for _, imp := range c.pkg.Types.Imports() {
				if imp.Name() == e.Args[0].Name {
					if v, ok := c.pkgConst(imp, e.Name, nil); ok {
						return v
					}
					c.fail("unknown constant %s.%s", imp.Name(), e.Name)
				}
			}
		}
	}
	base := c.eval(e.Args[0])
	if n, err := strconv.Atoi(e.Name); err == nil {
		if base.K != KTuple || n >= len(base.Fields) {
			c.fail("bad tuple projection %s", e)
		}
		return base.Fields[n]
	}
	switch base.K {
	case KStruct:
		stT := base.T.Underlying().(*types.Struct)
		for k := 0; k < stT.NumFields(); k++ {
			if stT.Field(k).Name() == e.Name {
				return base.Fields[k]
			}
		}
		c.fail("no field %s in %s", e.Name, base.T)
	case KPtr:
		l := c.fieldLoc(base.Loc, e.Name)
		if c.specMode && !c.heap().Spec {
			c.fail("heap access in spec function")
		}
		return c.x.loadLoc(c.heap(), l)
	}
	c.fail("field access on %v value in %s", base.K, e)
	return Value{}
}

func (c *CEnv) tryIdent(name string) (Value, bool) {
	if v, ok := c.bound[name]; ok {
		return v, true
	}
	if v, ok := c.vars[name]; ok {
		return v, true
	}
	if c.lookup != nil {
		if v, ok := c.lookup(name); ok {
			return v, true
		}
	}
	return Value{}, false
}

func (c *CEnv) fieldLoc(l *Loc, name string) *Loc {
	stT, ok := l.T.Underlying().(*types.Struct)
	if !ok {
		c.fail("field %s of non-struct %s", name, l.T)
	}
	for k := 0; k < stT.NumFields(); k++ {
		f := stT.Field(k)
		if f.Name() == name {
			return &Loc{Prefix: l.Prefix + "." + name, Root: l.Root, Elems: l.Elems, T: f.Type()}
		}
		// promoted through embedded struct
		if f.Embedded() {
			if est, ok := f.Type().Underlying().(*types.Struct); ok {
				for j := 0; j < est.NumFields(); j++ {
					if est.Field(j).Name() == name {
						inner := &Loc{Prefix: l.Prefix + "." + f.Name(), Root: l.Root, Elems: l.Elems, T: f.Type()}
						return c.fieldLoc(inner, name)
					}
				}
			}
		}
	}
	c.fail("no field %s in %s", name, l.T)
	return nil
}

// evalLoc evaluates a designator (p.f, s[i]) to a location.
func (c *CEnv) evalLoc(e *CE, st *State) *Loc {
	switch e.Kind {
	case "field":
		if l := c.ghostLoc(e); l != nil {
			return l
		}
		base := c.eval(e.Args[0])
		if base.K != KPtr {
			c.fail("designator base is not a pointer: %s", e)
		}
		return c.fieldLoc(base.Loc, e.Name)
	case "index":
		base := c.eval(e.Args[0])
		idx := c.eval(e.Args[1])
		if base.K != KSlice {
			c.fail("designator index base is not a slice: %s", e)
		}
		return &Loc{Prefix: base.Loc.Prefix, Root: base.Loc.Root, Elems: appendTerm(base.Loc.Elems, c.x.ixAdd(base.Off, idx.X)), T: base.Loc.T}
	case "id":
		base := c.eval(e)
		if base.K == KPtr {
			return base.Loc
		}
	}
	c.fail("not a designator: %s", e)
	return nil
}

func (c *CEnv) index(e *CE) Value {
	m := c.mode
	base := c.eval(e.Args[0])
	ixHint := Value{K: KScalar, T: types.Typ[types.Int], X: m.ix(0)}
	idx := c.evalH(e.Args[1], &ixHint)
	switch base.K {
	case KSlice:
		if c.specMode && !c.heap().Spec {
			c.fail("heap access in spec function")
		}
		l := &Loc{Prefix: base.Loc.Prefix, Root: base.Loc.Root, Elems: appendTerm(base.Loc.Elems, c.x.ixAdd(base.Off, idx.X)), T: base.Loc.T}
		return c.x.loadLoc(c.heap(), l)
	case KArray:
		at := base.T.Underlying().(*types.Array)
		v, _ := m.fromLeaves(at.Elem(), []*Term{Select(base.X, idx.X)})
		c.x.assumeLoaded(c.heap(), v)
		return v
	case KString:
		return Value{K: KScalar, T: types.Typ[types.Uint8], X: Select(base.X, idx.X)}
	case KPtr:
		if at, ok := base.Loc.T.Underlying().(*types.Array); ok {
			pos := idx.X
			if base.Loc.Off != nil {
				pos = c.x.ixAdd(base.Loc.Off, idx.X)
			}
			l := &Loc{Prefix: base.Loc.Prefix, Root: base.Loc.Root, Elems: appendTerm(base.Loc.Elems, pos), T: at.Elem()}
			return c.x.loadLoc(c.heap(), l)
		}
	case KMap:
		return c.x.mapGetSpec(c, base, idx)
	case KScalar:
		// spec-level sequence (array sort)
		if _, el, ok := arrSorts(base.X.S); ok {
			var t types.Type
			if el == m.intSort(IntTy{8, false}) && base.T == nil {
				t = types.Typ[types.Uint8]
			}
			return Value{K: KScalar, T: t, X: Select(base.X, idx.X)}
		}
	}
	c.fail("cannot index %v value in %s", base.K, e)
	return Value{}
}

func (c *CEnv) sliceExpr(e *CE) Value {
	m := c.mode
	base := c.eval(e.Args[0])
	lo := m.ix(0)
	if e.Args[1] != nil {
		lo = c.evalH(e.Args[1], &Value{K: KScalar, X: m.ix(0)}).X
	}
	switch base.K {
	case KSlice:
		hi := base.Len
		if e.Args[2] != nil {
			hi = c.evalH(e.Args[2], &Value{K: KScalar, X: m.ix(0)}).X
		}
		return Value{T: base.T, K: KSlice, Loc: base.Loc, Off: c.x.ixAdd(base.Off, lo), Len: c.x.ixSub(hi, lo), Cap: c.x.ixSub(base.Cap, lo)}
	}
	c.fail("cannot slice %v value in %s", base.K, e)
	return Value{}
}

func (c *CEnv) quant(e *CE) Value {
	m := c.mode
	saved := c.bound
	nb := map[string]Value{}
	for k, v := range saved {
		nb[k] = v
	}
	c.bound = nb
	defer func() { c.bound = saved }()
	var vars [][2]string
	var guards []*Term
	if e.Typ == "" && len(e.Vars) == 1 {
		// a small literal range is expanded into a conjunction / disjunction (no quantifier for the solver)
		lo := c.evalH(e.Args[0], &Value{K: KScalar, X: m.ix(0)}).X
		hi := c.evalH(e.Args[1], &Value{K: KScalar, X: m.ix(0)}).X
		lv, ok1 := litValue(lo)
		hv, ok2 := litValue(hi)
		if ok1 && ok2 && lv.IsInt64() && hv.IsInt64() && hv.Int64()-lv.Int64() <= 8 {
			var parts []*Term
			for k := lv.Int64(); k < hv.Int64(); k++ {
				nb[e.Vars[0]] = Value{K: KScalar, T: types.Typ[types.Int], X: m.ix(k)}
				parts = append(parts, c.evalBool(e.Args[2]))
			}
			if e.Kind == "forall" {
				return Value{K: KScalar, X: And(parts...)}
			}
			return Value{K: KScalar, X: Or(parts...)}
		}
	}
	c.x.vc.nfresh++
	tag := c.x.vc.nfresh
	vc := c.x.vc
	vc.sideStack = append(vc.sideStack, nil)
	popSide := func() []*Term {
		n := len(vc.sideStack)
		s := vc.sideStack[n-1]
		vc.sideStack = vc.sideStack[:n-1]
		return s
	}
	if e.Typ == "" {
		lo := c.evalH(e.Args[0], &Value{K: KScalar, X: m.ix(0)}).X
		hi := c.evalH(e.Args[1], &Value{K: KScalar, X: m.ix(0)}).X
		ixT := IntTy{64, true}
		for _, v := range e.Vars {
			name := fmt.Sprintf("%s!q%d", v, tag)
			s := Sym(name, m.ixSort())
			nb[v] = Value{K: KScalar, T: types.Typ[types.Int], X: s}
			vars = append(vars, [2]string{name, m.ixSort()})
			guards = append(guards, m.cmp(token.LEQ, lo, s, ixT), m.cmp(token.LSS, s, hi, ixT))
		}
		body := c.evalBool(e.Args[2])
		return Value{K: KScalar, X: c.closeQuant(e.Kind, vars, guards, popSide(), body)}
	}
	for _, v := range e.Vars {
		name := fmt.Sprintf("%s!q%d", v, tag)
		// a struct type: one bound symbol per leaf
		if st := lookupNamedType(c.pkg, e.Typ); st != nil && (kindOf(st) == KStruct || kindOf(st) == KArray) {
			var ls []*Term
			for li, lf := range m.flatten(st) {
				ln := fmt.Sprintf("%s.%d", name, li)
				ls = append(ls, Sym(ln, lf.Sort))
				vars = append(vars, [2]string{ln, lf.Sort})
			}
			sv, _ := m.fromLeaves(st, ls)
			c.x.vc.sideStack = append(c.x.vc.sideStack, nil)
			c.x.assumeTypeInv(c.heap(), sv)
			guards = append(guards, c.x.vc.sideStack[len(c.x.vc.sideStack)-1]...)
			c.x.vc.sideStack = c.x.vc.sideStack[:len(c.x.vc.sideStack)-1]
			nb[v] = sv
			continue
		}
		sort := m.specSort(e.Typ)
		s := Sym(name, sort)
		t, _ := basicByName(e.Typ)
		val := specParamValue(c.pkg, m, Param{Name: v, Type: e.Typ}, s)
		if t != nil {
			if it, ok := intTyOf(t); ok {
				guards = append(guards, m.inRange(s, it))
			}
		}
		if val.K == KPtr && !c.heap().Spec {
			// quantification over the objects that exist: allocated, non-negative references
			if _, ok := val.Loc.T.Underlying().(*types.Struct); ok {
				guards = append(guards, iLt(IntLit(0), s), Select(c.x.isType(c.heap(), val.Loc.T), s))
			} else {
				guards = append(guards, iLe(IntLit(0), s), iLt(s, c.x.alloc(c.heap())))
			}
		}
		nb[v] = val
		vars = append(vars, [2]string{name, sort})
	}
	body := c.evalBool(e.Args[0])
	return Value{K: KScalar, X: c.closeQuant(e.Kind, vars, guards, popSide(), body)}
}

// closeQuant builds the quantified formula. side holds heap-typing facts about terms that mention
// the bound variables; they are always true, so they strengthen whichever side helps the prover:
// hypotheses of a goal, conclusions of an assumption. In mixed polarity they are dropped.
func (c *CEnv) closeQuant(kind string, vars [][2]string, guards, side []*Term, body *Term) *Term {
	if c.mixed > 0 || c.specMode {
		// a spec function's body is used in both polarities
		side = nil
	}
	if kind == "forall" {
		g, s, b := And(guards...), And(side...), body
		nv, parts, pats := c.x.vc.shapeQuant(vars, []*Term{g, s, b})
		g, s, b = parts[0], parts[1], parts[2]
		if c.goal {
			return Forall(nv, Implies(And(g, s), b), pats...)
		}
		return Forall(nv, Implies(g, And(s, b)), pats...)
	}
	if c.goal {
		// proving an existential: side facts may not be assumed inside; drop them
		return Exists(vars, And(append(guards, body)...))
	}
	return Exists(vars, And(append(append(guards, side...), body)...))
}

func (c *CEnv) callExpr(e *CE, hint *Value) Value {
	m := c.mode
	name := e.Name
	if t, ok := goBasicByName(name); ok && len(e.Args) == 1 && name != "bool" {
		// conversion with Go semantics
		a := c.evalH(e.Args[0], hint)
		to, _ := intTyOf(t)
		if m == ModeBV {
			from, ok := c.intTy(a)
			if !ok {
				c.fail("conversion of untyped value in %s", e)
			}
			return Value{K: KScalar, T: t, X: m.convert(a.X, from, to)}
		}
		if a.T != nil {
			if from, ok := intTyOf(a.T); ok {
				return Value{K: KScalar, T: t, X: m.convert(a.X, from, to)}
			}
		}
		if v, ok := litValue(a.X); ok {
			return Value{K: KScalar, T: t, X: IntLitBig(wrapBig(v, to))}
		}
		return Value{K: KScalar, T: t, X: wrapFull(a.X, to)}
	}
	switch name {
	case "len", "cap":
		a := c.eval(e.Args[0])
		switch a.K {
		case KSlice:
			if name == "cap" {
				return Value{K: KScalar, T: types.Typ[types.Int], X: a.Cap}
			}
			return Value{K: KScalar, T: types.Typ[types.Int], X: a.Len}
		case KString:
			return Value{K: KScalar, T: types.Typ[types.Int], X: a.Len}
		case KArray:
			return Value{K: KScalar, T: types.Typ[types.Int], X: m.ix(a.T.Underlying().(*types.Array).Len())}
		case KMap:
			return Value{K: KScalar, T: types.Typ[types.Int], X: c.x.mapLen(c.heap(), a)}
		}
		c.fail("len of %v", a.K)
	case "mathint":
		// the mathematical value of a typed integer (mode int only)
		return c.mathInt(c.eval(e.Args[0]).X)
	case "big":
		// mathematical value of a *big.Int
		a := c.eval(e.Args[0])
		if a.K != KPtr {
			c.fail("big() of non-pointer")
		}
		return c.mathInt(Select(c.x.bigHeap(c.heap()), a.Loc.Root))
	case "pow2":
		a := c.evalH(e.Args[0], nil)
		return c.mathInt(c.x.pow2Term(a.X))
	case "iter":
		// iter(k): ghost count of completed iterations of loop k of the function under proof
		if len(e.Args) != 1 || e.Args[0].Kind != "num" || c.fr == nil || c.mode != ModeInt {
			c.fail("iter(k): needs a literal loop ordinal (mode int)")
		}
		k := int(e.Args[0].Num.Int64())
		it := c.fr.iter[k]
		if it == nil {
			c.fail("iter(%d): loop not entered at this point", k)
		}
		return c.mathInt(it)
	case "bytelen":
		a := c.evalH(e.Args[0], nil)
		c.x.vc.needByteLen()
		return c.mathInt(App("bytelen", SInt, a.X))
	case "beval":
		// beval(a, p, end): big-endian value of the bytes a[p..end) of a sequence (what big.Int.SetBytes computes)
		if len(e.Args) != 3 || c.mode != ModeInt {
			c.fail("beval(seq, p, end) (mode int)")
		}
		a := c.eval(e.Args[0])
		p := c.evalH(e.Args[1], nil)
		q := c.evalH(e.Args[2], nil)
		if a.X == nil {
			c.fail("beval: first argument must be a sequence (content(s) or an array value)")
		}
		c.x.vc.needBEVal()
		return c.mathInt(App("beval", SInt, a.X, p.X, q.X))
	case "rpos", "ravail", "rbyte", "wlen", "wbyte", "infallible":
		v, _ := c.ioBuiltin(name, e)
		return v
	case "unix", "nanosecond":
		// Unix seconds / nanosecond part of a time.Time value
		a := c.eval(e.Args[0])
		if name == "unix" {
			return Value{K: KScalar, T: types.Typ[types.Int64], X: c.x.timeUnix(c.heap(), a)}
		}
		return c.mathInt(c.x.timeNsec(c.heap(), a))
	case "abs":
		a := c.evalH(e.Args[0], nil)
		return c.mathInt(iAbs(a.X))
	case "ediv", "emod":
		// Euclidean division / remainder (SMT-LIB div, mod): floor division for positive divisors
		a := c.evalH(e.Args[0], nil)
		b := c.evalH(e.Args[1], &a)
		if name == "ediv" {
			return c.mathInt(iDivE(a.X, b.X))
		}
		return c.mathInt(iModE(a.X, b.X))
	case "min", "max":
		a := c.evalH(e.Args[0], hint)
		b := c.evalH(e.Args[1], &a)
		it, ok := c.intTy(a)
		if !ok {
			it = IntTy{64, true}
		}
		if name == "min" {
			return Value{K: KScalar, T: a.T, X: Ite(m.cmp(token.LSS, a.X, b.X, it), a.X, b.X)}
		}
		return Value{K: KScalar, T: a.T, X: Ite(m.cmp(token.GTR, a.X, b.X, it), a.X, b.X)}
	case "istype":
		// istype(e, T): the dynamic type of the interface value e is the package's type T
		if len(e.Args) != 2 || e.Args[1].Kind != "id" {
			c.fail("istype(e, T) needs an interface value and a type name: %s", e)
		}
		a := c.eval(e.Args[0])
		if a.K != KIface {
			c.fail("istype() of a non-interface value")
		}
		obj := c.pkg.Types.Scope().Lookup(e.Args[1].Name)
		if obj == nil {
			c.fail("istype(): unknown type %s", e.Args[1].Name)
		}
		return Value{K: KScalar, T: types.Typ[types.Bool], X: c.x.dynTypeIs(a.X, obj.Type())}
	case "errcode":
		a := c.eval(e.Args[0])
		sort := m.ixSort()
		if s, ok := c.x.vc.declared["errcode"]; ok {
			sort = s
		}
		return Value{K: KScalar, X: c.x.errcode(a.X, sort)}
	case "has":
		// has(m, k): key k is present in map m
		mv := c.eval(e.Args[0])
		if mv.K != KMap || mv.T == nil {
			c.fail("has() needs a map: %s", e)
		}
		mi := c.x.mapInfoOf(mv.T)
		z := c.x.zeroValue(mi.kt)
		k := c.evalH(e.Args[1], &z)
		return Value{K: KScalar, X: c.x.mapHas(c.heap(), mi, mv.X, k)}
	case "fresh":
		// the object was allocated during the call / function
		a := c.eval(e.Args[0])
		if c.old == nil {
			c.fail("fresh() needs a pre-state")
		}
		var r *Term
		switch a.K {
		case KPtr, KSlice:
			r = a.Loc.Root
		default:
			r = a.X
		}
		return Value{K: KScalar, X: iGe(r, c.x.alloc(c.old))}
	case "seq":
		// content array of a byte slice together with its offset is not a first-class value; use seqat
		c.fail("seq() is not supported; index the slice directly")
	case "content":
		// content(s): SMT array holding the backing store of a slice (indices are absolute: off+i)
		a := c.eval(e.Args[0])
		if a.K == KString {
			return Value{K: KScalar, X: a.X}
		}
		if a.K == KArray && a.X != nil {
			return Value{K: KScalar, X: a.X}
		}
		if a.K == KPtr {
			// pointer to an array of scalars: the array value it points to (indices from 0)
			if _, ok := a.Loc.T.Underlying().(*types.Array); ok {
				v := c.x.loadLoc(c.heap(), a.Loc)
				if v.K == KArray && v.X != nil {
					return Value{K: KScalar, X: v.X}
				}
			}
		}
		if a.K != KSlice {
			c.fail("content() of non-slice")
		}
		lf := m.flatten(a.Loc.T)
		if len(lf) != 1 {
			c.fail("content() of composite element slice")
		}
		comp := c.x.comp(c.heap(), a.Loc.Prefix, c.x.compSortFor(lf[0].Sort, len(a.Loc.Elems)+1))
		return Value{K: KScalar, X: nestedSelect(comp, a.Loc.indices())}
	case "elemindex":
		// elemindex(p): the (absolute) index of the slice/array element an interior pointer p points to
		a := c.eval(e.Args[0])
		if a.K != KPtr || a.Loc == nil || len(a.Loc.Elems) == 0 {
			c.fail("elemindex() needs a pointer to a slice or array element: %s", e)
		}
		return c.mathInt(a.Loc.Elems[len(a.Loc.Elems)-1])
	case "addr":
		// addr(v): the address of the local variable v of the function under contract (&v)
		if len(e.Args) == 1 && (e.Args[0].Kind == "field" || e.Args[0].Kind == "index") {
			// addr(p.f) / addr(s[i]): the address of a field or element (an interior pointer), comparable
			// with the pointer a call receives
			l := c.evalLoc(e.Args[0], c.heap())
			return Value{T: types.NewPointer(l.T), K: KPtr, Loc: l}
		}
		if len(e.Args) != 1 || e.Args[0].Kind != "id" || c.fr == nil {
			c.fail("addr() needs the name of a local variable: %s", e)
		}
		name := e.Args[0].Name
		for _, l := range c.fr.fn.Locals {
			if l.Comment == name {
				if a, ok := c.fr.env[l]; ok && a.K == KPtr {
					return a
				}
			}
		}
		for _, b := range c.fr.fn.Blocks {
			for _, ins := range b.Instrs {
				if l, ok := ins.(*ssa.Alloc); ok && l.Heap && l.Comment == name {
					if a, ok := c.fr.env[l]; ok && a.K == KPtr {
						return a
					}
				}
			}
		}
		c.fail("addr(%s): no such address-taken local (or not yet allocated)", name)
	case "wheld", "rheld", "unheld":
		// ghost lock state of a mutex field: write-held / read-held / not held by this call chain
		l := c.evalLoc(e.Args[0], c.heap())
		ls := c.x.lockState(c.heap(), l)
		want := map[string]int64{"wheld": 2, "rheld": 1, "unheld": 0}[e.Name]
		return Value{K: KScalar, X: Eq(ls, IntLit(want))}
	case "payload":
		// the pointer wrapped by an interface value
		a := c.eval(e.Args[0])
		if a.K != KIface {
			c.fail("payload() of non-interface")
		}
		return Value{K: KScalar, X: c.x.payload(a.X)}
	case "arr":
		// the backing array (reference) of a slice: arr(a) == arr(b) says they share storage
		a := c.eval(e.Args[0])
		if a.K == KPtr {
			// the object a pointer points to (or into): arr(addr(local)) names a local array's storage
			return Value{K: KScalar, X: a.Loc.Root}
		}
		if a.K != KSlice {
			c.fail("arr() of non-slice")
		}
		return Value{K: KScalar, X: a.Loc.Root}
	case "off":
		a := c.eval(e.Args[0])
		if a.K == KString {
			return Value{K: KScalar, X: m.ix(0)}
		}
		return Value{K: KScalar, T: types.Typ[types.Int], X: a.Off}
	}
	// a pure scalar Go function of the package, named in a contract
	if fn, fc, pkg := c.lookupPureFn(name); fn != nil && len(e.Args) == len(fn.Params) {
		var args []Value
		for k, p := range fn.Params {
			if pk := kindOf(p.Type()); pk == KPtr || pk == KSlice || pk == KArray {
				a := c.eval(e.Args[k])
				if a.K != pk {
					c.fail("argument %d of %s has the wrong kind in %s", k+1, name, e)
				}
				args = append(args, a)
				continue
			}
			z := c.x.zeroValue(p.Type())
			a := c.evalH(e.Args[k], &z)
			if a.K != KScalar || a.X.S != z.X.S {
				c.fail("argument %d of %s has the wrong sort in %s", k+1, name, e)
			}
			args = append(args, a)
		}
		return c.x.pureCallValue(c.fr, c.heap(), fn, fc, pkg, args)
	}
	// spec function
	if sf := c.findSpec(name); sf != nil {
		if len(sf.Params) != len(e.Args) {
			c.fail("spec %s expects %d arguments", name, len(sf.Params))
		}
		c.x.vc.useSpec(c, sf)
		var args []*Term
		for k, p := range sf.Params {
			ps := m.specSort(p.Type)
			var h *Value
			if t, ok := basicByName(p.Type); ok {
				if it, ok := intTyOf(t); ok {
					h = &Value{K: KScalar, T: t, X: m.lit(big.NewInt(0), it)}
				}
			}
			a := c.evalH(e.Args[k], h)
			var at *Term
			switch a.K {
			case KPtr, KSlice:
				at = a.Loc.Root
			default:
				at = a.X
			}
			if at == nil || at.S != ps {
				got := "?"
				if at != nil {
					got = at.S
				}
				c.fail("argument %d of %s has sort %s, want %s (%s)", k+1, name, got, ps, e)
			}
			args = append(args, at)
		}
		// heap components the spec body reads are implicit arguments: the current (or old) heap
		for _, hp := range c.x.vc.specHeap[sf.Name] {
			args = append(args, c.x.comp(c.heap(), hp[0], hp[1]))
		}
		app := App(quoteSym(name), m.specSort(sf.Ret), args...)
		if _, ok := goBasicByName(sf.Ret); !ok {
			sp := c.pkg
			if p2 := c.x.vc.uni.specPkg(sf); p2 != nil {
				sp = p2
			}
			return specParamValue(sp, m, Param{Type: sf.Ret}, app)
		}
		rt, _ := basicByName(sf.Ret)
		return Value{K: KScalar, T: rt, X: app}
	}
	c.fail("unknown function %s in %s", name, e)
	return Value{}
}

func (c *CEnv) findSpec(name string) *SpecFn {
	if c.pkg != nil && c.pkg.Contracts != nil {
		if sf, ok := c.pkg.Contracts.Specs[name]; ok {
			return sf
		}
	}
	// search all loaded contract files (cross-package specs)
	for _, p := range c.x.vc.uni.pkgs {
		if p.Contracts != nil {
			if sf, ok := p.Contracts.Specs[name]; ok {
				return sf
			}
		}
	}
	return nil
}


// useSpec makes sure the definition of a spec function is part of the script.
func (vc *VC) useSpec(c *CEnv, sf *SpecFn) {
	if vc.specsUsed[sf.Name] {
		return
	}
	vc.specsUsed[sf.Name] = true
	m := vc.mode
	var ps []string
	pkg := c.pkg
	if sp := vc.uni.specPkg(sf); sp != nil {
		pkg = sp
	}
	sheap := &State{H: map[string]*Term{}, Reach: TTrue, Spec: true}
	env := &CEnv{x: c.x, fr: c.fr, pkg: pkg, mode: m, vars: map[string]Value{}, specMode: true, st: sheap}
	for _, p := range sf.Params {
		s := m.specSort(p.Type)
		ps = append(ps, fmt.Sprintf("(%s %s)", quoteSym(p.Name), s))
		env.vars[p.Name] = specParamValue(pkg, m, p, Sym(p.Name, s))
	}
	rs := m.specSort(sf.Ret)
	if sf.Uninterp {
		var ss []string
		for _, p := range sf.Params {
			ss = append(ss, m.specSort(p.Type))
		}
		vc.items = append(vc.items, Item{Kind: "declfun", Name: sf.Name, Raw: fmt.Sprintf("(declare-fun %s (%s) %s)", quoteSym(sf.Name), strings.Join(ss, " "), rs)})
		return
	}
	// reserve position: dependencies are emitted first by the recursive eval
	idx := len(vc.items)
	vc.items = append(vc.items, Item{Kind: "raw", Name: sf.Name})
	var hint *Value
	if t, ok := basicByName(sf.Ret); ok {
		if it, ok := intTyOf(t); ok {
			hint = &Value{K: KScalar, T: t, X: m.lit(big.NewInt(0), it)}
		}
	}
	vc.sideStack = append(vc.sideStack, nil)
	body := env.evalH(sf.Body, hint)
	// heap components read by the body become implicit parameters; a second evaluation lets
	// recursive calls pass them along
	if len(sheap.H) > 0 {
		var hps [][2]string
		for _, k := range sortedKeys(sheap.H) {
			hps = append(hps, [2]string{k, sheap.H[k].S})
		}
		if vc.specHeap == nil {
			vc.specHeap = map[string][][2]string{}
		}
		vc.specHeap[sf.Name] = hps
		body = env.evalH(sf.Body, hint)
	}
	vc.sideStack = vc.sideStack[:len(vc.sideStack)-1] // typing facts about bound parameters are dropped
	if (body.K == KPtr || body.K == KSlice) && body.Loc != nil {
		body.X = body.Loc.Root
	}
	if body.X == nil || body.X.S != rs {
		got := "?"
		if body.X != nil {
			got = body.X.S
		}
		panic(engineErr{fmt.Sprintf("spec %s: body has sort %s, declared %s", sf.Name, got, rs)})
	}
	var pnames, psorts []string
	for _, p := range sf.Params {
		pnames = append(pnames, quoteSym(p.Name))
		psorts = append(psorts, m.specSort(p.Type))
	}
	for _, hp := range vc.specHeap[sf.Name] {
		pnames = append(pnames, quoteSym("hp."+hp[0]))
		psorts = append(psorts, hp[1])
	}
	raw := specDefinition(quoteSym(sf.Name), pnames, psorts, rs, body.X)
	// dependencies discovered during evaluation were appended after idx; move this definition after them
	deps := append([]Item{}, vc.items[idx+1:]...)
	vc.items = append(vc.items[:idx], deps...)
	vc.items = append(vc.items, Item{Kind: "raw", Name: sf.Name, Raw: raw})
}

// ---- environments for function contracts

// lookupLocal resolves a source-level variable name at a block of the frame's function.
func (x *Exec) lookupLocal(fr *Frame, at *ssa.BasicBlock, st *State, name string) (Value, bool) {
	return x.lookupLocalAt(fr, at, -1, st, name)
}

// lookupLocalAt resolves name as seen just before instruction upto of block at (upto < 0: at the block's phis).
func (x *Exec) lookupLocalAt(fr *Frame, at *ssa.BasicBlock, upto int, st *State, name string) (Value, bool) {
	if upto >= 0 {
		// the latest definition inside the block before the instruction wins over the block's phis
		for k := upto - 1; k >= 0; k-- {
			if i, ok := at.Instrs[k].(*ssa.DebugRef); ok && identName(i) == name {
				if v, ok := x.memoryOfVar(fr, st, i); ok {
					return v, true
				}
				if i.IsAddr {
					if a, ok := fr.env[i.X]; ok && a.K == KPtr {
						return x.loadLoc(st, a.Loc), true
					}
					continue
				}
				if cst, ok := i.X.(*ssa.Const); ok {
					return x.constValue(st, cst), true
				}
				if v, ok := fr.env[i.X]; ok {
					return v, true
				}
			}
		}
	}
	// phis of this block
	for _, ins := range at.Instrs {
		phi, ok := ins.(*ssa.Phi)
		if !ok {
			break
		}
		if phi.Comment == name {
			if v, ok := fr.env[phi]; ok {
				return v, true
			}
		}
	}
	// nearest dominating DebugRef / phi
	for b := at; b != nil; b = b.Idom() {
		start := len(b.Instrs) - 1
		for k := start; k >= 0; k-- {
			switch i := b.Instrs[k].(type) {
			case *ssa.DebugRef:
				if b == at {
					continue // definitions inside the block itself come after the loop head
				}
				if id, ok := i.Expr.(interface{ String() string }); ok {
					_ = id
				}
				if identName(i) == name {
					if v, ok := x.memoryOfVar(fr, st, i); ok {
						return v, true
					}
					if i.IsAddr {
						a, ok := fr.env[i.X]
						if !ok {
							if al, ok2 := i.X.(*ssa.Alloc); ok2 {
								a, ok = fr.env[al]
							}
						}
						if ok && a.K == KPtr {
							return x.loadLoc(st, a.Loc), true
						}
						continue
					}
					if cst, ok := i.X.(*ssa.Const); ok {
						return x.constValue(st, cst), true
					}
					if v, ok := fr.env[i.X]; ok {
						return v, true
					}
				}
			case *ssa.Phi:
				if b != at && i.Comment == name {
					if v, ok := fr.env[i]; ok {
						return v, true
					}
				}
			}
		}
	}
	for _, p := range fr.fn.Params {
		if p.Name() == name {
			return fr.env[p], true
		}
	}
	for k, fv := range fr.fn.FreeVars {
		if fv.Name() == name {
			_ = k
			v := fr.env[fv]
			if v.K == KPtr { // captured by reference
				return x.loadLoc(st, v.Loc), true
			}
			return v, true
		}
	}
	// named results / address-taken locals
	for _, l := range fr.fn.Locals {
		if l.Comment == name {
			if a, ok := fr.env[l]; ok && a.K == KPtr {
				return x.loadLoc(st, a.Loc), true
			}
		}
	}
	// last resort: a variable with exactly one definition in the whole function (x := e in some
	// branch that does not dominate this point) denotes that definition's value; a clause using it
	// must itself be conditional on the branch having been taken
	var only *ssa.DebugRef
	n := 0
	for _, b := range fr.fn.Blocks {
		for _, ins := range b.Instrs {
			if d, ok := ins.(*ssa.DebugRef); ok && !d.IsAddr && identName(d) == name {
				if _, isIdent := d.Expr.(*ast.Ident); isIdent {
					if only == nil || only.X != d.X {
						n++
						only = d
					}
				}
			}
		}
	}
	if n == 1 {
		if cst, ok := only.X.(*ssa.Const); ok {
			return x.constValue(st, cst), true
		}
		if v, ok := fr.env[only.X]; ok {
			return v, true
		}
	}
	return Value{}, false
}

// memoryOfVar: when the source variable a DebugRef names lives in memory (its address is taken, so go/ssa
// gave it an Alloc), its current value is what that memory holds now, not the value it was initialised with.
func (x *Exec) memoryOfVar(fr *Frame, st *State, d *ssa.DebugRef) (Value, bool) {
	obj := d.Object()
	if obj == nil {
		return Value{}, false
	}
	for _, l := range fr.fn.Locals {
		if l.Pos() == obj.Pos() {
			if a, ok := fr.env[l]; ok && a.K == KPtr {
				return x.loadLoc(st, a.Loc), true
			}
		}
	}
	// escaping variables are heap Allocs (instructions, not in Locals)
	for _, b := range fr.fn.Blocks {
		for _, ins := range b.Instrs {
			if l, ok := ins.(*ssa.Alloc); ok && l.Heap && l.Pos() == obj.Pos() && l.Comment == obj.Name() {
				if a, ok := fr.env[l]; ok && a.K == KPtr {
					return x.loadLoc(st, a.Loc), true
				}
			}
		}
	}
	return Value{}, false
}

func identName(d *ssa.DebugRef) string {
	type namer interface{ Name() string }
	if d.Expr == nil {
		return ""
	}
	// the selector identifier of x.f also gets a DebugRef: a struct field is not a local variable
	if v, ok := d.Object().(*types.Var); ok && v.IsField() {
		return ""
	}
	if _, ok := d.Object().(*types.Var); !ok {
		return ""
	}
	if id, ok := d.Expr.(interface{ String() string }); ok {
		s := id.String()
		if strings.ContainsAny(s, " .()[]+-*/&|") {
			return ""
		}
		return s
	}
	return ""
}

func (x *Exec) loopEnv(fr *Frame, li *LoopInfo, st *State) *CEnv {
	env := &CEnv{x: x, fr: fr, st: st, old: &fr.top.entry, pkg: fr.pkg, mode: x.m(), vars: map[string]Value{}, ghostsOK: fr == fr.top}
	if fr != fr.top {
		env.old = &fr.entry
	}
	env.lookup = func(name string) (Value, bool) { return x.lookupLocal(fr, li.Header, st, name) }
	// old(param) must see entry values of parameters: parameters are immutable SSA values
	return env
}

func (x *Exec) entryEnv(fr *Frame, st *State) *CEnv {
	env := &CEnv{x: x, fr: fr, st: st, old: &fr.entry, pkg: fr.pkg, mode: x.m(), vars: map[string]Value{}, ghostsOK: fr == fr.top}
	for i, p := range fr.fn.Params {
		env.vars[p.Name()] = fr.params[i]
	}
	return env
}
