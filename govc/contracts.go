package main

// Contract files: /repo/<pkg>/verif_contracts.go, comment-only, behind //go:build verif.
// Every line of interest starts with "//@".

import (
	"bufio"
	"fmt"
	"os"
	"strconv"
	"strings"
)

type Param struct{ Name, Type string }

type Clause struct {
	Expr *CE
	Src  string
	Line int
	Tag  string // optional label: "ensures[name] ..."
	Slow bool   // thorough-only
	Assumed bool // "ensures assumed e": used by callers, not proved for the body
}

type LoopSpec struct {
	Invariants []*Clause
	Decreases  *Clause
	Unroll     int
	Uses       []*Clause // lemma instances assumed at the loop head
}

type SplitHint struct {
	Expr   *CE
	Lo, Hi int64
	Tag    string // applies to the clause with this tag only ("" = all)
}

type FuncContract struct {
	Name       string // as written after "func"
	Recv, Fn   string
	Props      []string
	Mode       string // "int" | "bv"
	Requires   []*Clause
	Ensures    []*Clause
	Modifies   []*CE
	ModAll     bool // "modifies *": everything may change (havoc at call sites)
	NoPanic    bool
	NoOverflow bool
	Pure       bool
	Trusted    bool
	Inline     bool
	Iface      bool // contract of an interface method
	Loops      map[int]*LoopSpec
	Uses       []*Clause // lemma instances assumed at entry
	Splits     []*SplitHint
	Tier       string // "" | "thorough"
	AllocBound *CE
	SlowObls   []string // substrings of obligation names that are thorough-only
	Imports    []string // "callee[tag]": quantified ensures of callees to assume at call sites
	Abstract   []string // callee names to abstract (havoc) explicitly instead of inlining
	File       string
	Line       int
	GhostVars  []Param // logical variables: universally quantified over the whole contract
	Where      *Clause // hypothesis about the logical variables, referred to as `where` in clauses
	Partial    bool    // paths reaching an instruction outside the subset are abandoned (listed as unchecked)
	CallSites  []*CallSiteSpec
	StopAfter  []string
	StopBefore []string
	ExactKeys  bool
	NilOK      bool
	LockHandoff bool // the function acquires or releases mutexes on behalf of its caller (begin / close pairs): no lock.balanced obligation
	NoPre      bool // partial mode: callee preconditions are not checked in this function (listed as not claimed)
	NotClaimed [][3]string // obligation kind, fragment of its source line, reason
}

// CallSiteSpec is an assertion checked at every call of Callee inside the function, in the caller's scope;
// arg0..argN name the actual arguments (arg0 is the receiver of a method call).
type CallSiteSpec struct {
	Callee string
	Tag    string
	Clause *Clause
	IsUse  bool // "callsite f use lemma(args)": assume a lemma instance at the call instead of asserting
	IsGuard bool // "callsite return#k guard [tag] e": like assert, but the named return need not be able to succeed ("if it reports success, then e")
	IsNever bool // "callsite f never [tag]": no reachable call of f (assert false at each, no cover; none at all is fine)
	IsReach bool // "callsite f reach [tag] e": the call must be reachable in a state satisfying e (a must-be-satisfiable cover)
}

type SpecFn struct {
	Name   string
	Params []Param
	Ret    string
	Body   *CE
	Src    string
	Line   int
	Uninterp bool // declared without body: uninterpreted
}

type Lemma struct {
	Name     string
	Params   []Param
	Props    []string
	Requires []*Clause
	Ensures  []*Clause
	Induct   *CE
	IH       [][]*CE
	Uses     []*Clause
	Splits   []*SplitHint
	Tier     string
	Mode     string
	Line     int
	Axiom    bool // assumed, not proved (listed as assumption)
}

type PkgContracts struct {
	File   string
	Specs  map[string]*SpecFn
	Funcs  map[string]*FuncContract
	Order  []string // func names in file order
	Lemmas []*Lemma
	LemmaByName map[string]*Lemma
	Assumptions []string // mechanical scan: trusted / axiom entries
	GlobalInvs  []*Clause
	MonotoneGhosts map[string]bool
	GhostVars   []Param // package-level ghost state: "ghostvar name type", read and written only by contracts as ghost.name
}

var ckeywords = map[string]bool{
	"spec": true, "func": true, "iface": true, "lemma": true, "axiom": true, "prop": true, "mode": true, "requires": true,
	"ensures": true, "modifies": true, "nopanic": true, "nooverflow": true, "pure": true,
	"trusted": true, "inline": true, "loop": true, "use": true, "split": true, "tier": true,
	"induct": true, "ih": true, "allocbound": true, "abstract": true, "ghost": true, "uninterp": true, "where": true, "import": true, "globalinv": true, "slow": true,
	"partial": true, "callsite": true, "ghostvar": true, "stopafter": true, "stopbefore": true, "notclaimed": true, "exactkeys": true, "nilok": true, "nopre": true, "lockhandoff": true,
}

func parseParams(s string) ([]Param, error) {
	s = strings.TrimSpace(s)
	if s == "" {
		return nil, nil
	}
	var ps []Param
	var pendingNames []string
	for _, part := range strings.Split(s, ",") {
		f := strings.Fields(part)
		switch len(f) {
		case 1:
			pendingNames = append(pendingNames, f[0])
		case 2:
			for _, n := range pendingNames {
				ps = append(ps, Param{n, f[1]})
			}
			pendingNames = nil
			ps = append(ps, Param{f[0], f[1]})
		default:
			return nil, fmt.Errorf("bad parameter %q", part)
		}
	}
	if len(pendingNames) > 0 {
		return nil, fmt.Errorf("parameters without type: %v", pendingNames)
	}
	return ps, nil
}

func loadContracts(path string) (*PkgContracts, error) {
	f, err := os.Open(path)
	if err != nil {
		return nil, err
	}
	defer f.Close()
	pc := &PkgContracts{File: path, Specs: map[string]*SpecFn{}, Funcs: map[string]*FuncContract{}, LemmaByName: map[string]*Lemma{}}
	// gather logical lines
	type lline struct {
		text string
		line int
	}
	var lines []lline
	sc := bufio.NewScanner(f)
	sc.Buffer(make([]byte, 1<<20), 1<<20)
	ln := 0
	for sc.Scan() {
		ln++
		t := strings.TrimSpace(sc.Text())
		if !strings.HasPrefix(t, "//@") {
			continue
		}
		t = strings.TrimSpace(t[3:])
		if t == "" {
			continue
		}
		// strip trailing comment "// ..." (but not inside strings; contracts rarely contain //)
		if i := strings.Index(t, " // "); i >= 0 {
			t = strings.TrimSpace(t[:i])
		}
		first := strings.Fields(t)[0]
		if i := strings.IndexAny(first, "[("); i > 0 {
			first = first[:i]
		}
		if ckeywords[first] {
			lines = append(lines, lline{t, ln})
		} else if len(lines) > 0 {
			lines[len(lines)-1].text += " " + t
		} else {
			return nil, fmt.Errorf("%s:%d: continuation without clause", path, ln)
		}
	}
	var curF *FuncContract
	var curL *Lemma
	fail := func(l lline, f string, a ...any) error {
		return fmt.Errorf("%s:%d: %s", path, l.line, fmt.Sprintf(f, a...))
	}
	mkClause := func(l lline, src string) (*Clause, error) {
		tag := ""
		src = strings.TrimSpace(src)
		if strings.HasPrefix(src, "[") {
			j := strings.Index(src, "]")
			tag = src[1:j]
			src = strings.TrimSpace(src[j+1:])
		}
		slow := false
		if strings.HasPrefix(src, "slow ") {
			slow = true
			src = strings.TrimSpace(src[5:])
		}
		assumed := false
		if strings.HasPrefix(src, "assumed ") {
			// an ensures clause that callers may rely on but that is not proved for the body (a definition
			// by an uninterpreted function, typically); listed as an assumption
			assumed = true
			src = strings.TrimSpace(src[8:])
			pc.Assumptions = append(pc.Assumptions, fmt.Sprintf("assumed clause (%s:%d): %s", path, l.line, src))
		}
		e, err := parseCE(src)
		if err != nil {
			return nil, fail(l, "%v", err)
		}
		return &Clause{Expr: e, Src: src, Line: l.line, Tag: tag, Slow: slow, Assumed: assumed}, nil
	}
	parseSplit := func(l lline, rest string) (*SplitHint, error) {
		i := strings.LastIndex(rest, " in ")
		if i < 0 {
			return nil, fail(l, "split: expected 'e in lo..hi'")
		}
		e, err := parseCE(rest[:i])
		if err != nil {
			return nil, fail(l, "%v", err)
		}
		r := strings.Split(strings.TrimSpace(rest[i+4:]), "..")
		if len(r) != 2 {
			return nil, fail(l, "split: bad range")
		}
		lo, err1 := strconv.ParseInt(strings.TrimSpace(r[0]), 0, 64)
		hi, err2 := strconv.ParseInt(strings.TrimSpace(r[1]), 0, 64)
		if err1 != nil || err2 != nil {
			return nil, fail(l, "split: bad bounds")
		}
		return &SplitHint{Expr: e, Lo: lo, Hi: hi}, nil
	}
	for _, l := range lines {
		kw, rest, _ := strings.Cut(l.text, " ")
		if i := strings.IndexAny(kw, "[("); i > 0 { // e.g. ensures[tag]
			rest = kw[i:] + " " + rest
			kw = kw[:i]
		}
		rest = strings.TrimSpace(rest)
		switch kw {
		case "spec", "uninterp":
			// spec name(params) ret = body
			curF, curL = nil, nil
			op := strings.Index(rest, "(")
			cp := strings.Index(rest, ")")
			if op < 0 || cp < op {
				return nil, fail(l, "spec: bad header")
			}
			name := strings.TrimSpace(rest[:op])
			ps, err := parseParams(rest[op+1 : cp])
			if err != nil {
				return nil, fail(l, "%v", err)
			}
			after := strings.TrimSpace(rest[cp+1:])
			sf := &SpecFn{Name: name, Params: ps, Line: l.line}
			if kw == "uninterp" {
				sf.Ret = after
				sf.Uninterp = true
				pc.Assumptions = append(pc.Assumptions, fmt.Sprintf("uninterpreted function %s (%s:%d)", name, path, l.line))
			} else {
				ret, body, ok := strings.Cut(after, "=")
				if !ok {
					return nil, fail(l, "spec: expected '='")
				}
				sf.Ret = strings.TrimSpace(ret)
				sf.Src = strings.TrimSpace(body)
				e, err := parseCE(sf.Src)
				if err != nil {
					return nil, fail(l, "%v", err)
				}
				sf.Body = e
			}
			if _, dup := pc.Specs[name]; dup {
				return nil, fail(l, "duplicate spec %s", name)
			}
			pc.Specs[name] = sf
		case "func", "iface":
			curL = nil
			name := rest
			fc := &FuncContract{Name: name, Mode: "int", Loops: map[int]*LoopSpec{}, File: path, Line: l.line}
			if kw == "iface" {
				// contract of an interface method: used at invoke sites; implementations are checked to refine it
				fc.Iface = true
				fc.Trusted = true
				pc.Assumptions = append(pc.Assumptions, fmt.Sprintf("interface contract %s (%s:%d): implementations outside /repo's contracted set are assumed to satisfy it", name, path, l.line))
			}
			// forms: Name | (T).Name | (*T).Name | T.Name, optionally followed by " @variant": an additional
			// scenario contract of the same function (other preconditions, other clauses); it is verified
			// like any contract but never used at call sites, which always see the primary contract
			variant := ""
			if i := strings.Index(name, "@"); i >= 0 {
				variant = strings.TrimSpace(name[i+1:])
				name = strings.TrimSpace(name[:i])
				fc.Name = name + "@" + variant
			}
			n := strings.NewReplacer("(", "", ")", "", "*", "").Replace(name)
			if i := strings.LastIndex(n, "."); i >= 0 {
				fc.Recv, fc.Fn = n[:i], n[i+1:]
			} else {
				fc.Fn = n
			}
			key := fc.Fn
			if fc.Recv != "" {
				key = fc.Recv + "." + fc.Fn
			}
			if variant != "" {
				key += "@" + variant
			}
			if _, dup := pc.Funcs[key]; dup {
				return nil, fail(l, "duplicate contract for %s", key)
			}
			pc.Funcs[key] = fc
			pc.Order = append(pc.Order, key)
			curF = fc
		case "lemma", "axiom":
			curF = nil
			op := strings.Index(rest, "(")
			cp := strings.LastIndex(rest, ")")
			if op < 0 || cp < op {
				return nil, fail(l, "lemma: bad header")
			}
			ps, err := parseParams(rest[op+1 : cp])
			if err != nil {
				return nil, fail(l, "%v", err)
			}
			curL = &Lemma{Name: strings.TrimSpace(rest[:op]), Params: ps, Line: l.line, Mode: "int", Axiom: kw == "axiom"}
			if curL.Axiom {
				pc.Assumptions = append(pc.Assumptions, fmt.Sprintf("axiom %s (%s:%d)", curL.Name, path, l.line))
			}
			pc.Lemmas = append(pc.Lemmas, curL)
			pc.LemmaByName[curL.Name] = curL
		case "ghostvar":
			curF, curL = nil, nil
			// "ghostvar name bool monotone": a flag that, by its definition ("X has happened"), is never
			// reset: code without a contract can only leave it or set it, so a havoc keeps it once true
			mono := false
			if f := strings.Fields(rest); len(f) == 3 && f[2] == "monotone" && f[1] == "bool" {
				mono = true
				rest = f[0] + " " + f[1]
			}
			ps, err := parseParams(rest)
			if err != nil {
				return nil, fail(l, "ghostvar: %v", err)
			}
			pc.GhostVars = append(pc.GhostVars, ps...)
			if mono {
				if pc.MonotoneGhosts == nil {
					pc.MonotoneGhosts = map[string]bool{}
				}
				for _, g := range ps {
					pc.MonotoneGhosts[g.Name] = true
				}
			}
		case "globalinv":
			// package-level invariant over effectively-final globals: proved on init, assumed elsewhere
			curF, curL = nil, nil
			c, err := mkClause(l, rest)
			if err != nil {
				return nil, err
			}
			pc.GlobalInvs = append(pc.GlobalInvs, c)
		default:
			if curF == nil && curL == nil {
				return nil, fail(l, "clause %q outside func/lemma", kw)
			}
			switch kw {
			case "prop":
				ps := strings.FieldsFunc(rest, func(r rune) bool { return r == ',' || r == ' ' })
				if curF != nil {
					curF.Props = append(curF.Props, ps...)
				} else {
					curL.Props = append(curL.Props, ps...)
				}
			case "mode":
				if rest != "int" && rest != "bv" {
					return nil, fail(l, "mode must be int or bv")
				}
				if curF != nil {
					curF.Mode = rest
				} else {
					curL.Mode = rest
				}
			case "tier":
				if curF != nil {
					curF.Tier = rest
				} else {
					curL.Tier = rest
				}
			case "requires", "ensures":
				c, err := mkClause(l, rest)
				if err != nil {
					return nil, err
				}
				switch {
				case curF != nil && kw == "requires":
					curF.Requires = append(curF.Requires, c)
				case curF != nil:
					curF.Ensures = append(curF.Ensures, c)
				case kw == "requires":
					curL.Requires = append(curL.Requires, c)
				default:
					curL.Ensures = append(curL.Ensures, c)
				}
			case "use":
				c, err := mkClause(l, rest)
				if err != nil {
					return nil, err
				}
				if curF != nil {
					curF.Uses = append(curF.Uses, c)
				} else {
					curL.Uses = append(curL.Uses, c)
				}
			case "split":
				stag := ""
				if strings.HasPrefix(rest, "[") {
					j := strings.Index(rest, "]")
					stag = rest[1:j]
					rest = strings.TrimSpace(rest[j+1:])
				}
				sh, err := parseSplit(l, rest)
				if err != nil {
					return nil, err
				}
				sh.Tag = stag
				if curF != nil {
					curF.Splits = append(curF.Splits, sh)
				} else {
					curL.Splits = append(curL.Splits, sh)
				}
			case "induct":
				if curL == nil {
					return nil, fail(l, "induct outside lemma")
				}
				e, err := parseCE(rest)
				if err != nil {
					return nil, fail(l, "%v", err)
				}
				curL.Induct = e
			case "ih":
				if curL == nil {
					return nil, fail(l, "ih outside lemma")
				}
				e, err := parseCE("ih" + rest)
				if err != nil {
					return nil, fail(l, "%v", err)
				}
				curL.IH = append(curL.IH, e.Args)
			default:
				if curF == nil {
					return nil, fail(l, "clause %q not valid in lemma", kw)
				}
				switch kw {
				case "modifies":
					if rest == "*" {
						curF.ModAll = true
						break
					}
					// comma separated at top level
					for _, part := range splitTop(rest) {
						e, err := parseCE(part)
						if err != nil {
							return nil, fail(l, "%v", err)
						}
						curF.Modifies = append(curF.Modifies, e)
					}
				case "nopanic":
					curF.NoPanic = true
				case "notclaimed":
					// notclaimed <obligation> <reason>: an obligation that is generated but deliberately left undecided
					// (the obligation is named by its kind and a fragment of its source line, not by ordinal)
					ob, tail, _ := strings.Cut(rest, " ")
					tail = strings.TrimSpace(tail)
					if !strings.HasPrefix(tail, "\"") || strings.Count(tail, "\"") < 2 {
						return nil, fail(l, "notclaimed: expected 'notclaimed <kind> \"<source fragment>\" <reason>'")
					}
					j := strings.Index(tail[1:], "\"") + 1
					curF.NotClaimed = append(curF.NotClaimed, [3]string{ob, tail[1:j], strings.TrimSpace(tail[j+1:])})
				case "nopre":
					curF.NoPre = true
				case "lockhandoff":
					// the function hands mutexes to / takes them from its caller on purpose; its own clauses
					// say which.  Callers do not see the change (calls never change the ghost lock state), so
					// this is only sound for callers whose contracts do not talk about those mutexes.
					curF.LockHandoff = true
				case "nilok":
					// the method may be called on a nil receiver (it checks for nil itself)
					curF.NilOK = true
				case "exactkeys":
					// every integer conversion that directly forms a map key must preserve the value
					curF.ExactKeys = true
				case "partial":
					curF.Partial = true
				case "stopbefore":
					// stopbefore <callee>...: like stopafter, but the call itself is not executed (its call-site
					// assertions are still checked)
					curF.Partial = true
					curF.StopBefore = append(curF.StopBefore, strings.Fields(strings.ReplaceAll(rest, ",", " "))...)
				case "stopafter":
					// stopafter <callee>...: symbolic execution of the function ends after the first call of one of
					// these callees on each path (only the prefix up to and including that call is checked)
					curF.Partial = true
					curF.StopAfter = append(curF.StopAfter, strings.Fields(strings.ReplaceAll(rest, ",", " "))...)
				case "callsite":
					// callsite <callee> assert [tag] <expr>
					f := strings.Fields(rest)
					if len(f) >= 3 && f[1] == "never" {
						// callsite <callee> never [tag]: the function makes no reachable call of callee (the
						// assertion "false" at every such call, without the reachability cover)
						body := strings.TrimSpace(strings.TrimPrefix(strings.TrimSpace(rest[len(f[0]):]), f[1]))
						c, err := mkClause(l, body+" false")
						if err != nil {
							return nil, err
						}
						curF.CallSites = append(curF.CallSites, &CallSiteSpec{Callee: f[0], Tag: c.Tag, Clause: c, IsNever: true})
						break
					}
					if len(f) < 3 || f[1] != "assert" && f[1] != "use" && f[1] != "reach" && f[1] != "guard" {
						return nil, fail(l, "callsite: expected 'callsite <callee> assert <expr>' or 'callsite <callee> use lemma(args)'")
					}
					body := strings.TrimSpace(strings.TrimPrefix(strings.TrimSpace(rest[len(f[0]):]), f[1]))
					c, err := mkClause(l, body)
					if err != nil {
						return nil, err
					}
					curF.CallSites = append(curF.CallSites, &CallSiteSpec{Callee: f[0], Tag: c.Tag, Clause: c, IsUse: f[1] == "use", IsReach: f[1] == "reach", IsGuard: f[1] == "guard"})
				case "nooverflow":
					curF.NoOverflow = true
				case "pure":
					curF.Pure = true
				case "trusted":
					curF.Trusted = true
					pc.Assumptions = append(pc.Assumptions, fmt.Sprintf("trusted contract %s (%s:%d)", curF.Name, path, l.line))
				case "inline":
					curF.Inline = true
				case "import":
					// import callee[tag]: also assume the callee's ghost-quantified ensures clause at call sites
					for _, f := range strings.Fields(strings.ReplaceAll(rest, ",", " ")) {
						curF.Imports = append(curF.Imports, f)
					}
				case "slow":
					// slow <substring>...: obligations whose name contains one of these are thorough-only
					curF.SlowObls = append(curF.SlowObls, strings.Fields(strings.ReplaceAll(rest, ",", " "))...)
				case "abstract":
					curF.Abstract = append(curF.Abstract, strings.Fields(strings.ReplaceAll(rest, ",", " "))...)
				case "allocbound":
					e, err := parseCE(rest)
					if err != nil {
						return nil, fail(l, "%v", err)
					}
					curF.AllocBound = e
				case "where":
					c, err := mkClause(l, rest)
					if err != nil {
						return nil, err
					}
					curF.Where = c
				case "ghost":
					ps, err := parseParams(rest)
					if err != nil {
						return nil, fail(l, "ghost: %v", err)
					}
					curF.GhostVars = append(curF.GhostVars, ps...)
				case "loop":
					f := strings.Fields(rest)
					if len(f) < 2 {
						return nil, fail(l, "loop: expected 'loop k invariant|decreases|unroll ...'")
					}
					k, err := strconv.Atoi(f[0])
					if err != nil {
						return nil, fail(l, "loop: bad ordinal")
					}
					ls := curF.Loops[k]
					if ls == nil {
						ls = &LoopSpec{}
						curF.Loops[k] = ls
					}
					body := strings.TrimSpace(strings.TrimPrefix(strings.TrimSpace(rest[len(f[0]):]), f[1]))
					switch f[1] {
					case "invariant":
						c, err := mkClause(l, body)
						if err != nil {
							return nil, err
						}
						ls.Invariants = append(ls.Invariants, c)
					case "decreases":
						c, err := mkClause(l, body)
						if err != nil {
							return nil, err
						}
						ls.Decreases = c
					case "use":
						c, err := mkClause(l, body)
						if err != nil {
							return nil, err
						}
						ls.Uses = append(ls.Uses, c)
					case "unroll":
						n, err := strconv.Atoi(body)
						if err != nil {
							return nil, fail(l, "loop unroll: bad count")
						}
						ls.Unroll = n
					default:
						return nil, fail(l, "loop: unknown clause %q", f[1])
					}
				default:
					return nil, fail(l, "unknown clause %q", kw)
				}
			}
		}
	}
	return pc, nil
}

// splitTop splits on commas not nested in brackets/parens.
func splitTop(s string) []string {
	var out []string
	depth := 0
	start := 0
	for i := 0; i < len(s); i++ {
		switch s[i] {
		case '(', '[':
			depth++
		case ')', ']':
			depth--
		case ',':
			if depth == 0 {
				out = append(out, strings.TrimSpace(s[start:i]))
				start = i + 1
			}
		}
	}
	out = append(out, strings.TrimSpace(s[start:]))
	return out
}
