package main

// Interface method contracts.
//
//   //@ iface thresholdConditionChecker.IsSpeedy
//   //@   pure
//
// A pure interface method is an uninterpreted function of its receiver and arguments (assumption:
// it depends on nothing that changes while the caller runs). The same symbol is used for calls in
// code and for method-call expressions in contracts, so "the code asked the checker" and "the spec
// talks about the checker's answer" meet in one term.

import (
	"fmt"
	"go/token"
	"go/types"
	"strings"

	"golang.org/x/tools/go/ssa"
)

func ifaceFnName(t types.Type, method string, k int) string {
	return fmt.Sprintf("im.%s.%s.%d", typeKey(t), method, k)
}

// ifaceApply builds the result value(s) of a pure interface method application.
func (x *Exec) ifaceApply(st *State, ifaceT types.Type, method *types.Func, recv *Term, args []Value) Value {
	m := x.m()
	sig := method.Type().(*types.Signature)
	var argTerms []*Term
	var argSorts []string
	argTerms = append(argTerms, recv)
	argSorts = append(argSorts, refSort)
	for _, a := range args {
		switch a.K {
		case KPtr, KSlice:
			if a.K == KSlice {
				unsupported("slice argument to a pure interface method")
			}
			argTerms = append(argTerms, a.Loc.Root)
			argSorts = append(argSorts, refSort)
		case KScalar, KIface, KMap:
			argTerms = append(argTerms, a.X)
			argSorts = append(argSorts, a.X.S)
		case KStruct:
			for _, l := range a.leaves(m) {
				argTerms = append(argTerms, l)
				argSorts = append(argSorts, l.S)
			}
		default:
			unsupported("argument kind %v to a pure interface method", a.K)
		}
	}
	var results []Value
	for k := 0; k < sig.Results().Len(); k++ {
		rt := sig.Results().At(k).Type()
		lfs := m.flatten(rt)
		var ls []*Term
		for li, lf := range lfs {
			name := ifaceFnName(ifaceT, method.Name(), k)
			if len(lfs) > 1 {
				name += fmt.Sprintf(".%d", li)
			}
			q := quoteSym(name)
			if _, ok := x.vc.declared[q]; !ok {
				x.vc.declared[q] = lf.Sort
				x.vc.items = append(x.vc.items, Item{Kind: "declfun", Name: q, Raw: fmt.Sprintf("(declare-fun %s (%s) %s)", q, strings.Join(argSorts, " "), lf.Sort)})
			}
			ls = append(ls, App(q, lf.Sort, argTerms...))
		}
		v, _ := m.fromLeaves(rt, ls)
		x.assumeTypeInv(st, v)
		results = append(results, v)
	}
	switch len(results) {
	case 0:
		return Value{K: KTuple}
	case 1:
		return results[0]
	}
	return Value{T: sig.Results(), K: KTuple, Fields: results}
}

func (x *Exec) ifaceCall(fr *Frame, st *State, ic *FuncContract, c *ssa.CallCommon, recv Value, args []Value, pos token.Pos, resT types.Type) Value {
	if !ic.Pure {
		// declared but not pure: frame from the contract, results unconstrained except ensures
		// a contract with a frame: preconditions checked, declared frame havocked, ensures assumed
		sig := c.Method.Type().(*types.Signature)
		names := []string{"self"}
		ptypes := []types.Type{c.Value.Type()}
		for i := 0; i < sig.Params().Len(); i++ {
			names = append(names, sig.Params().At(i).Name())
			ptypes = append(ptypes, sig.Params().At(i).Type())
		}
		x.note("abstracted: interface method " + c.Method.FullName() + ": assumed contract (any implementation is assumed to satisfy it)")
		return x.contractCallSig(fr, st, c.Method.Name(), names, ptypes, sig, nil, ic, x.vc.uni.pkgOfNamed(c.Value.Type()), append([]Value{recv}, args...), pos, resT)
	}
	res := x.ifaceApply(st, c.Value.Type(), c.Method, recv.X, args)
	if len(ic.Ensures) > 0 {
		env := &CEnv{x: x, fr: fr, st: st, old: st, pkg: x.vc.uni.pkgOfNamed(c.Value.Type()), vars: map[string]Value{}, mode: x.m(), hasResult: true, result: res, calleeEnv: true}
		sig := c.Method.Type().(*types.Signature)
		for i := 0; i < sig.Params().Len() && i < len(args); i++ {
			if n := sig.Params().At(i).Name(); n != "" {
				env.vars[n] = args[i]
			}
		}
		env.vars["self"] = recv
		for _, en := range ic.Ensures {
			x.vc.assume(Implies(st.Reach, env.evalBool(en.Expr)))
		}
	}
	return res
}

func (u *Universe) pkgOfNamed(t types.Type) *PkgInfo {
	if n, ok := types.Unalias(t).(*types.Named); ok && n.Obj().Pkg() != nil {
		return u.pkgs[n.Obj().Pkg().Path()]
	}
	return nil
}

// methodCall evaluates recv.M(args) in a contract: pure interface methods only.
func (c *CEnv) methodCall(e *CE) Value {
	recv := c.eval(e.Args[0])
	if recv.K == KPtr && recv.Loc != nil {
		// a pure method of a concrete type (declared "pure" in that type's package): one uninterpreted
		// application shared with the call sites in code
		if nt, ok := types.Unalias(recv.Loc.T).(*types.Named); ok {
			pi := c.x.vc.uni.pkgOfNamed(nt)
			key := nt.Obj().Name() + "." + e.Name
			if pi != nil && pi.Contracts != nil && pi.Contracts.Funcs[key] != nil {
				fc := pi.Contracts.Funcs[key]
				fn := c.x.vc.uni.findFunc(pi, fc)
				if fn != nil && pureScalarFn(fn, fc) && len(fn.Params) == len(e.Args) {
					args := []Value{recv}
					for i, a := range e.Args[1:] {
						p := fn.Params[i+1]
						if kindOf(p.Type()) == KPtr {
							args = append(args, c.eval(a))
							continue
						}
						z := c.x.zeroValue(p.Type())
						args = append(args, c.evalH(a, &z))
					}
					return c.x.pureCallValue(c.fr, c.heap(), fn, fc, pi, args)
				}
			}
		}
		c.fail("method %s has no pure contract in %s", e.Name, e)
	}
	if recv.K != KIface || recv.T == nil {
		c.fail("method call on a non-interface value in %s", e)
	}
	n, ok := types.Unalias(recv.T).(*types.Named)
	if !ok {
		c.fail("method call on an unnamed interface in %s", e)
	}
	it, ok := n.Underlying().(*types.Interface)
	if !ok {
		c.fail("not an interface: %s", recv.T)
	}
	var method *types.Func
	for i := 0; i < it.NumMethods(); i++ {
		if it.Method(i).Name() == e.Name {
			method = it.Method(i)
		}
	}
	if method == nil {
		c.fail("interface %s has no method %s", n.Obj().Name(), e.Name)
	}
	pi := c.x.vc.uni.pkgOfNamed(recv.T)
	if pi == nil || pi.Contracts == nil || pi.Contracts.Funcs[n.Obj().Name()+"."+e.Name] == nil || !pi.Contracts.Funcs[n.Obj().Name()+"."+e.Name].Pure {
		c.fail("interface method %s.%s has no pure contract", n.Obj().Name(), e.Name)
	}
	var args []Value
	sig := method.Type().(*types.Signature)
	for i, a := range e.Args[1:] {
		var hint *Value
		if i < sig.Params().Len() {
			z := c.x.zeroValue(sig.Params().At(i).Type())
			hint = &z
		}
		args = append(args, c.evalH(a, hint))
	}
	return c.x.ifaceApply(c.heap(), recv.T, method, recv.X, args)
}

// specParamValue builds the symbolic value of a spec parameter from its declared type name.
func specParamValue(pkg *PkgInfo, m Mode, p Param, sym *Term) Value {
	if t, ok := basicByName(p.Type); ok {
		return Value{K: KScalar, T: t, X: sym}
	}
	name := p.Type
	ptr := strings.HasPrefix(name, "*")
	name = strings.TrimPrefix(name, "*")
	if pkg != nil {
		if t := lookupNamedType(pkg, name); t != nil {
			{
				if ptr {
					return Value{T: types.NewPointer(t), K: KPtr, Loc: &Loc{Prefix: canonPrefix(t), Root: sym, T: t}}
				}
				switch kindOf(t) {
				case KIface:
					return Value{T: t, K: KIface, X: sym}
				case KMap:
					return Value{T: t, K: KMap, X: sym}
				case KScalar:
					return Value{T: t, K: KScalar, X: sym}
				}
			}
		}
	}
	return Value{K: KScalar, X: sym}
}

// specPkg finds the package whose contract file defines the spec function.
func (u *Universe) specPkg(sf *SpecFn) *PkgInfo {
	for _, p := range u.pkgs {
		if p.Contracts != nil && p.Contracts.Specs[sf.Name] == sf {
			return p
		}
	}
	return nil
}
