// ssad dumps the SSA of named functions of a package (development aid).
package main

import (
	"fmt"
	"os"

	"golang.org/x/tools/go/packages"
	"golang.org/x/tools/go/ssa"
	"golang.org/x/tools/go/ssa/ssautil"
)

func main() {
	dir, pat := os.Args[1], os.Args[2]
	cfg := &packages.Config{Mode: packages.LoadAllSyntax, Dir: dir}
	pkgs, err := packages.Load(cfg, pat)
	if err != nil {
		panic(err)
	}
	prog, spkgs := ssautil.AllPackages(pkgs, ssa.InstantiateGenerics|ssa.GlobalDebug)
	prog.Build()
	want := map[string]bool{}
	for _, a := range os.Args[3:] {
		want[a] = true
	}
	for _, sp := range spkgs {
		if sp == nil {
			continue
		}
		for fn := range ssautil.AllFunctions(prog) {
			if fn.Pkg != sp {
				continue
			}
			if want[fn.Name()] || want[fn.RelString(sp.Pkg)] {
				fn.WriteTo(os.Stdout)
				fmt.Println()
			}
		}
	}
}
