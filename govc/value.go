package main

// Symbolic values and the component heap.

import (
	"fmt"
	"go/types"
	"strings"

	"golang.org/x/tools/go/ssa"
)

type Kind int

const (
	KScalar Kind = iota // ints, bool, opaque
	KPtr
	KSlice
	KString
	KStruct
	KArray
	KTuple
	KFunc
	KIface
	KMap
	KUnknown // opaque, nothing known (floats, chans, ...)
)

// Loc is a location: component prefix plus indices.
type Loc struct {
	Prefix string
	Root   *Term   // Int reference
	Elems  []*Term // further indices (index sort of the mode)
	T      types.Type
	Off    *Term // for pointers to arrays carved out of a slice: element offset (nil = 0)
}

type Value struct {
	T      types.Type
	K      Kind
	X      *Term // scalar / array content / map ref / iface ref / string content
	Loc    *Loc  // pointer target; slice base (array-level location, T = element type)
	Off    *Term
	Len    *Term
	Cap    *Term
	Fields []Value // struct fields / tuple components
	Fn     *ssa.Function
	Binds  []Value
	Dyn    *Value // for interfaces built in this function: the concrete value
}

const refSort = SInt

var nilRef = IntLit(0)

func typeKey(t types.Type) string {
	switch tt := t.(type) {
	case *types.Basic:
		switch tt.Kind() {
		case types.Uint8:
			return "u8"
		case types.Int:
			return "int"
		case types.Uint:
			return "uint"
		}
		return tt.Name()
	case *types.Named:
		o := tt.Obj()
		s := o.Name()
		if o.Pkg() != nil {
			s = o.Pkg().Name() + "." + s
		}
		if ta := tt.TypeArgs(); ta != nil && ta.Len() > 0 {
			var as []string
			for i := 0; i < ta.Len(); i++ {
				as = append(as, typeKey(ta.At(i)))
			}
			s += "<" + strings.Join(as, ",") + ">"
		}
		return s
	case *types.Alias:
		return typeKey(types.Unalias(tt))
	case *types.Pointer:
		return "*" + typeKey(tt.Elem())
	case *types.Slice:
		return "[]" + typeKey(tt.Elem())
	case *types.Array:
		return fmt.Sprintf("[%d]%s", tt.Len(), typeKey(tt.Elem()))
	case *types.Map:
		return "map<" + typeKey(tt.Key()) + "," + typeKey(tt.Elem()) + ">"
	case *types.Struct:
		var fs []string
		for i := 0; i < tt.NumFields(); i++ {
			fs = append(fs, tt.Field(i).Name()+":"+typeKey(tt.Field(i).Type()))
		}
		return "struct{" + strings.Join(fs, ";") + "}"
	case *types.Interface:
		if tt.NumMethods() == 0 {
			return "any"
		}
		return "iface"
	case *types.Signature:
		return "func"
	case *types.Chan:
		return "chan"
	case *types.Tuple:
		return "tuple"
	}
	return "T?"
}

// canonical prefix of the storage a pointer of static type *T refers to
func canonPrefix(pointee types.Type) string {
	switch u := pointee.Underlying().(type) {
	case *types.Struct:
		return typeKey(pointee)
	case *types.Array:
		// named array types (chainhash.Hash) share storage with their element arrays
		return "Mem." + typeKey(u.Elem())
	}
	return "Cell." + typeKey(pointee)
}

func kindOf(t types.Type) Kind {
	switch u := t.Underlying().(type) {
	case *types.Basic:
		if u.Info()&types.IsString != 0 {
			return KString
		}
		if u.Info()&(types.IsInteger|types.IsBoolean) != 0 {
			return KScalar
		}
		if u.Kind() == types.UnsafePointer {
			return KUnknown
		}
		return KUnknown // floats, complex
	case *types.Pointer:
		return KPtr
	case *types.Slice:
		return KSlice
	case *types.Struct:
		return KStruct
	case *types.Array:
		return KArray
	case *types.Tuple:
		return KTuple
	case *types.Signature:
		return KFunc
	case *types.Interface:
		return KIface
	case *types.Map:
		return KMap
	case *types.Chan:
		return KUnknown
	}
	return KUnknown
}

// leafSort gives the SMT sort of a scalar-like leaf of Go type t.
func (m Mode) leafSort(t types.Type) string {
	if it, ok := intTyOf(t); ok {
		return m.intSort(it)
	}
	if b, ok := t.Underlying().(*types.Basic); ok && b.Info()&types.IsBoolean != 0 {
		return SBool
	}
	switch kindOf(t) {
	case KPtr, KMap, KIface, KFunc:
		return refSort
	case KArray:
		a := t.Underlying().(*types.Array)
		return SArr(m.ixSort(), m.leafSort(a.Elem()))
	}
	return "U" // uninterpreted sort for unknown kinds (float, chan, ...)
}

// Leaf describes one scalar component of a flattened type.
type Leaf struct {
	Suffix string
	Sort   string
	T      types.Type
}

// flatten enumerates the scalar leaves of a type as stored in the heap.
func (m Mode) flatten(t types.Type) []Leaf {
	switch kindOf(t) {
	case KStruct:
		st := t.Underlying().(*types.Struct)
		var out []Leaf
		for i := 0; i < st.NumFields(); i++ {
			f := st.Field(i)
			for _, l := range m.flatten(f.Type()) {
				out = append(out, Leaf{"." + f.Name() + l.Suffix, l.Sort, l.T})
			}
		}
		return out
	case KSlice:
		return []Leaf{{".arr", refSort, nil}, {".off", m.ixSort(), nil}, {".len", m.ixSort(), nil}, {".cap", m.ixSort(), nil}}
	case KString:
		return []Leaf{{".str", SArr(m.ixSort(), m.intSort(IntTy{8, false})), nil}, {".len", m.ixSort(), nil}}
	case KArray:
		a := t.Underlying().(*types.Array)
		if k := kindOf(a.Elem()); k == KScalar || k == KPtr || k == KMap || k == KIface {
			return []Leaf{{"", m.leafSort(t), t}}
		}
		// arrays of composites: leaves of the element, each lifted to an array
		var out []Leaf
		for _, l := range m.flatten(a.Elem()) {
			out = append(out, Leaf{l.Suffix, SArr(m.ixSort(), l.Sort), nil})
		}
		return out
	case KTuple:
		panic("flatten tuple")
	}
	return []Leaf{{"", m.leafSort(t), t}}
}

// leaves returns the SMT terms of a value in flatten order.
func (v Value) leaves(m Mode) []*Term {
	switch v.K {
	case KStruct, KTuple:
		var out []*Term
		for _, f := range v.Fields {
			out = append(out, f.leaves(m)...)
		}
		return out
	case KSlice:
		return []*Term{v.Loc.Root, v.Off, v.Len, v.Cap}
	case KString:
		return []*Term{v.X, v.Len}
	case KPtr:
		return []*Term{v.Loc.Root}
	case KFunc:
		if v.X == nil {
			return []*Term{nilRef}
		}
		return []*Term{v.X}
	}
	return []*Term{v.X}
}

type engineErr struct{ msg string }

func (e engineErr) Error() string { return e.msg }

func unsupported(f string, a ...any) { panic(engineErr{fmt.Sprintf(f, a...)}) }

// fromLeaves rebuilds a value of type t from leaf terms (inverse of leaves for canonical values).
func (m Mode) fromLeaves(t types.Type, ls []*Term) (Value, []*Term) {
	switch kindOf(t) {
	case KStruct:
		st := t.Underlying().(*types.Struct)
		v := Value{T: t, K: KStruct}
		for i := 0; i < st.NumFields(); i++ {
			var f Value
			f, ls = m.fromLeaves(st.Field(i).Type(), ls)
			v.Fields = append(v.Fields, f)
		}
		return v, ls
	case KTuple:
		tt := t.(*types.Tuple)
		v := Value{T: t, K: KTuple}
		for i := 0; i < tt.Len(); i++ {
			var f Value
			f, ls = m.fromLeaves(tt.At(i).Type(), ls)
			v.Fields = append(v.Fields, f)
		}
		return v, ls
	case KSlice:
		e := t.Underlying().(*types.Slice).Elem()
		return Value{T: t, K: KSlice, Loc: &Loc{Prefix: "Mem." + typeKey(e), Root: ls[0], T: e}, Off: ls[1], Len: ls[2], Cap: ls[3]}, ls[4:]
	case KString:
		return Value{T: t, K: KString, X: ls[0], Len: ls[1]}, ls[2:]
	case KPtr:
		pt := t.Underlying().(*types.Pointer).Elem()
		return Value{T: t, K: KPtr, Loc: &Loc{Prefix: canonPrefix(pt), Root: ls[0], T: pt}}, ls[1:]
	case KArray:
		a := t.Underlying().(*types.Array)
		if k := kindOf(a.Elem()); !(k == KScalar || k == KPtr || k == KMap || k == KIface) {
			unsupported("array value of composite element type %s", t)
		}
		return Value{T: t, K: KArray, X: ls[0]}, ls[1:]
	}
	return Value{T: t, K: kindOf(t), X: ls[0]}, ls[1:]
}

// isCanonical reports whether a pointer/slice value can be represented by its leaves alone.
func (v Value) isCanonical() bool {
	switch v.K {
	case KPtr:
		return len(v.Loc.Elems) == 0 && v.Loc.Prefix == canonPrefix(v.Loc.T)
	case KSlice:
		return len(v.Loc.Elems) == 0 && v.Loc.Prefix == "Mem."+typeKey(v.Loc.T)
	case KStruct, KTuple:
		for _, f := range v.Fields {
			if !f.isCanonical() {
				return false
			}
		}
	}
	return true
}
