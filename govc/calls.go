package main

// Calls: builtins, stubs, contract calls, inlining, havoc.

import (
	"fmt"
	"go/token"
	"go/types"
	"math/big"
	"strings"

	"golang.org/x/tools/go/ssa"
)

type ModSet struct {
	all      bool
	prefixes map[string]bool
	allocs   bool
}

func newModSet() ModSet { return ModSet{prefixes: map[string]bool{}} }

func (a *ModSet) union(b ModSet) {
	a.all = a.all || b.all
	a.allocs = a.allocs || b.allocs
	for p := range b.prefixes {
		a.prefixes[p] = true
	}
}

var pureLib = []string{
	"fmt.Sprintf", "fmt.Errorf", "fmt.Sprint", "fmt.Sprintln", "errors.New", "errors.Is", "errors.As", "strings.", "strconv.", "math/bits.",
	"bytes.Equal", "bytes.Compare", "bytes.HasPrefix", "bytes.HasSuffix", "bytes.Contains", "bytes.Index", "bytes.IndexByte",
	"encoding/hex.EncodeToString", "math.", "unicode.", "unicode/utf8.", "time.Now", "time.Unix", "(time.Time).", "(time.Duration).",
	"(*sync.Mutex).", "(*sync.RWMutex).", "(*sync.Once).", "sync/atomic.",
	"github.com/btcsuite/btclog", "(github.com/btcsuite/btclog", "github.com/davecgh/go-spew",
	"crypto/sha256.Sum256", "(*math/big.Int).Cmp", "(*math/big.Int).Sign", "(*math/big.Int).BitLen", "(*math/big.Int).Bit",
	"(*math/big.Int).Int64", "(*math/big.Int).Uint64", "(*math/big.Int).IsInt64", "(*math/big.Int).String", "(*math/big.Int).Text",
	"(*math/big.Int).Bytes",
}

func isPureLib(full string) bool {
	for _, p := range pureLib {
		if strings.HasPrefix(full, p) {
			return true
		}
	}
	return false
}

func fullName(fn *ssa.Function) string { return fn.String() }

func inRepo(fn *ssa.Function) bool {
	if fn.Pkg == nil && fn.Origin() != nil {
		fn = fn.Origin()
	}
	if fn.Pkg == nil {
		if fn.Parent() != nil {
			return inRepo(fn.Parent())
		}
		return false
	}
	p := fn.Pkg.Pkg.Path()
	return strings.HasPrefix(p, "github.com/btcsuite/btcd")
}

// fnEffects computes a conservative modification set of a function by scanning its SSA.
func (x *Exec) fnEffects(fn *ssa.Function, depth int) ModSet {
	u := x.vc.uni
	if ms, ok := u.effects[fn]; ok {
		return ms
	}
	ms := newModSet()
	full := fullName(fn)
	if isPureLib(full) {
		u.effects[fn] = ms
		return ms
	}
	if _, ok := stubs[full]; ok {
		ms = stubEffects(full)
		u.effects[fn] = ms
		return ms
	}
	if fc, pkg := u.contractFor(fn); fc != nil && !fc.Inline {
		ms = contractEffects(fn, fc, pkg)
		u.effects[fn] = ms
		return ms
	}
	if len(fn.Blocks) == 0 || !inRepo(fn) {
		// a function outside the repository: it can only write memory of types reachable from its
		// arguments (assumed: libraries keep no hidden pointers into the caller's memory of other
		// types); anything behind an interface, function value, map or channel is unknown -> everything
		ms = externalEffects(fn)
		u.effects[fn] = ms
		return ms
	}
	if depth > 6 {
		ms.all = true
		ms.allocs = true
		return ms
	}
	u.effects[fn] = ModSet{all: true, allocs: true, prefixes: map[string]bool{}} // recursion guard
	for _, b := range fn.Blocks {
		for _, ins := range b.Instrs {
			switch i := ins.(type) {
			case *ssa.Store:
				if a, ok := rootValue(i.Addr).(*ssa.Alloc); ok && !a.Heap {
					continue
				}
				ms.prefixes[staticPrefix(i.Addr)] = true
			case *ssa.MapUpdate:
				ms.prefixes["Map."] = true
			case *ssa.Alloc:
				if i.Heap {
					ms.allocs = true
				}
			case *ssa.MakeSlice, *ssa.MakeMap, *ssa.MakeInterface, *ssa.MakeClosure:
				ms.allocs = true
			case *ssa.Go, *ssa.Send, *ssa.Select, *ssa.Defer:
				if d, ok := ins.(*ssa.Defer); ok {
					if c := d.Call.StaticCallee(); c != nil {
						ms.union(x.fnEffects(c, depth+1))
						continue
					}
				}
				ms.all = true
			case *ssa.Call:
				c := i.Common()
				if bi, ok := c.Value.(*ssa.Builtin); ok {
					switch bi.Name() {
					case "append":
						ms.allocs = true
						ms.prefixes["Mem."+typeKey(i.Type().Underlying().(*types.Slice).Elem())] = true
					case "copy":
						ms.prefixes[staticSlicePrefix(c.Args[0])] = true
					case "delete", "clear":
						ms.prefixes["Map."] = true
					}
					continue
				}
				if callee := c.StaticCallee(); callee != nil {
					ms.union(x.fnEffects(callee, depth+1))
				} else {
					ms.all = true
					ms.allocs = true
				}
			}
		}
	}
	u.effects[fn] = ms
	return ms
}

func contractEffects(fn *ssa.Function, fc *FuncContract, pkg *PkgInfo) ModSet {
	ms := newModSet()
	ms.allocs = true
	if fc.ModAll {
		ms.all = true
		return ms
	}
	if fc.Pure {
		ms.allocs = false
	}
	ptypes := map[string]types.Type{}
	for _, p := range fn.Params {
		ptypes[p.Name()] = p.Type()
	}
	for _, me := range fc.Modifies {
		if me.Kind == "id" && me.Name == "maps" {
			ms.prefixes["Map."] = true
			continue
		}
		if me.Kind == "call" && me.Name == "all" && len(me.Args) == 1 {
			ms.prefixes[me.Args[0].String()] = true
			continue
		}
		if me.Kind == "call" && me.Name == "stream" {
			ms.prefixes["Io.out"] = true
			ms.prefixes["Io.outlen"] = true
			ms.prefixes["Io.pos"] = true
			continue
		}
		if me.Kind == "field" && me.Args[0].Kind == "id" && me.Args[0].Name == "ghost" && pkg != nil {
			own := false
			if pkg.Contracts != nil {
				for _, g := range pkg.Contracts.GhostVars {
					own = own || g.Name == me.Name
				}
			}
			if own {
				ms.prefixes[ghostPrefix(pkg, me.Name)] = true
			} else {
				ms.prefixes["Ghost."] = true
			}
			continue
		}
		if p, ok := staticCEPrefix(me, ptypes); ok {
			ms.prefixes[p] = true
		} else {
			ms.all = true
		}
	}
	return ms
}

// staticCEPrefix computes the component prefix a modifies-expression refers to.
func staticCEPrefix(e *CE, ptypes map[string]types.Type) (string, bool) {
	t, pre, ok := staticCEType(e, ptypes)
	_ = t
	return pre, ok
}

// returns (type of expression, component prefix holding its storage)
func staticCEType(e *CE, ptypes map[string]types.Type) (types.Type, string, bool) {
	switch e.Kind {
	case "id":
		t, ok := ptypes[e.Name]
		if !ok {
			return nil, "", false
		}
		switch u := t.Underlying().(type) {
		case *types.Slice:
			return t, "Mem." + typeKey(u.Elem()), true
		case *types.Pointer:
			return t, canonPrefix(u.Elem()), true
		}
		return t, "", false
	case "field":
		bt, bp, ok := staticCEType(e.Args[0], ptypes)
		if !ok {
			return nil, "", false
		}
		if e.Name == "*" {
			return bt, bp, true
		}
		var stT *types.Struct
		switch u := bt.Underlying().(type) {
		case *types.Pointer:
			stT, _ = u.Elem().Underlying().(*types.Struct)
		case *types.Struct:
			stT = u
		}
		if stT == nil {
			return nil, "", false
		}
		for k := 0; k < stT.NumFields(); k++ {
			if stT.Field(k).Name() == e.Name {
				return stT.Field(k).Type(), bp + "." + e.Name, true
			}
		}
		return nil, "", false
	case "index", "slice":
		bt, bp, ok := staticCEType(e.Args[0], ptypes)
		if !ok {
			return nil, "", false
		}
		if sl, ok := bt.Underlying().(*types.Slice); ok {
			if e.Kind == "slice" {
				return bt, "Mem." + typeKey(sl.Elem()), true
			}
			return sl.Elem(), "Mem." + typeKey(sl.Elem()), true
		}
		return bt, bp, true
	}
	return nil, "", false
}

func (x *Exec) calleeModSet(fr *Frame, c *ssa.CallCommon) ModSet {
	if bi, ok := c.Value.(*ssa.Builtin); ok {
		ms := newModSet()
		switch bi.Name() {
		case "append":
			ms.allocs = true
			ms.prefixes[staticSlicePrefix(c.Args[0])] = true
			ms.prefixes["Mem."+typeKey(c.Args[0].Type().Underlying().(*types.Slice).Elem())] = true
		case "copy":
			ms.prefixes[staticSlicePrefix(c.Args[0])] = true
		case "delete", "clear":
			ms.prefixes["Map."] = true
		}
		return ms
	}
	if callee := c.StaticCallee(); callee != nil {
		return x.fnEffects(callee, 0)
	}
	if c.IsInvoke() {
		if ic := x.vc.uni.ifaceContract(c); ic != nil && ic.Pure {
			return newModSet()
		} else if ic != nil && !ic.ModAll {
			ms := newModSet()
			ms.allocs = true
			sig := c.Method.Type().(*types.Signature)
			ptypes := map[string]types.Type{"self": c.Value.Type()}
			for i := 0; i < sig.Params().Len(); i++ {
				ptypes[sig.Params().At(i).Name()] = sig.Params().At(i).Type()
			}
			for _, me := range ic.Modifies {
				if p, ok := staticCEPrefix(me, ptypes); ok {
					ms.prefixes[p] = true
				} else {
					ms.all = true
				}
			}
			return ms
		}
		if c.Method.FullName() == "(io.Writer).Write" {
			ms := newModSet()
			ms.prefixes["Io.out"] = true
			ms.prefixes["Io.outlen"] = true
			ms.allocs = true
			return ms
		}
	}
	// closure value known?
	if v, ok := fr.env[c.Value]; ok && v.K == KFunc && v.Fn != nil {
		return x.fnEffects(v.Fn, 0)
	}
	return ModSet{all: true, allocs: true, prefixes: map[string]bool{}}
}

// ---- call dispatch

func (x *Exec) call(fr *Frame, st *State, c *ssa.CallCommon, pos token.Pos, site *ssa.Call) Value {
	var resT types.Type = c.Signature().Results()
	if c.Signature().Results().Len() == 1 {
		resT = c.Signature().Results().At(0).Type()
	}
	if bi, ok := c.Value.(*ssa.Builtin); ok {
		return x.builtin(fr, st, bi, c, pos, site)
	}
	x.callsiteAsserts(fr, st, c, site)
	var args []Value
	for _, a := range c.Args {
		args = append(args, x.get(fr, st, a))
	}
	if c.IsInvoke() {
		if n, ok := types.Unalias(c.Value.Type()).(*types.Named); ok && n.Obj().Pkg() != nil && strings.HasPrefix(n.Obj().Pkg().Path(), "github.com/btcsuite/btclog") {
			// logging: no effect on the state the contracts talk about (assumption: the package logger is non-nil)
			x.note("abstracted: logging calls are no-ops (package logger assumed non-nil)")
			if tt, ok := resT.(*types.Tuple); ok && tt.Len() == 0 {
				return Value{K: KTuple}
			}
			return x.havocValue(st, resT, "log")
		}
		recv := x.get(fr, st, c.Value)
		x.check(fr, st, "nil", Not(Eq(recv.X, nilRef)), pos, "method call on nil interface")
		if c.Method.FullName() == "(io.Writer).Write" && len(args) == 1 {
			return x.ioWrite(fr, st, recv, args[0], pos)
		}
		if recv.Dyn != nil {
			// statically known dynamic type
			if fn := fr.fn.Prog.LookupMethod(recv.Dyn.T, c.Method.Pkg(), c.Method.Name()); fn != nil {
				return x.callFunction(fr, st, fn, append([]Value{*recv.Dyn}, args...), nil, pos, resT)
			}
		}
		// an interface-typed package variable assigned once in init (e.g. byteOrder = binary.LittleEndian)
		if ld, ok := c.Value.(*ssa.UnOp); ok && ld.Op == token.MUL {
			if g, ok := ld.X.(*ssa.Global); ok {
				if ct := x.vc.uni.finalIfaceType(g); ct != nil {
					if fn := fr.fn.Prog.LookupMethod(ct, c.Method.Pkg(), c.Method.Name()); fn != nil {
						x.note("interface global " + g.Name() + " resolved to its only assignment (" + ct.String() + ")")
						return x.callFunction(fr, st, fn, append([]Value{x.zeroValue(ct)}, args...), nil, pos, resT)
					}
				}
			}
		}
		if ic := x.vc.uni.ifaceContract(c); ic != nil {
			return x.ifaceCall(fr, st, ic, c, recv, args, pos, resT)
		}
		if isDBCallbackMethod(c) && len(args) == 1 && args[0].K == KFunc && args[0].Fn != nil {
			return x.callbackOnce(fr, st, c, args[0], pos, resT)
		}
		return x.havocCall(fr, st, "interface method "+c.Method.FullName(), resT, true)
	}
	if callee := c.StaticCallee(); callee != nil {
		var binds []Value
		if mc, ok := c.Value.(*ssa.MakeClosure); ok {
			for _, b := range mc.Bindings {
				binds = append(binds, x.get(fr, st, b))
			}
		}
		return x.callFunction(fr, st, callee, args, binds, pos, resT)
	}
	fv := x.get(fr, st, c.Value)
	if fv.K == KFunc && fv.Fn != nil {
		return x.callFunction(fr, st, fv.Fn, args, fv.Binds, pos, resT)
	}
	// a function stored in a struct field (hooks such as deleteFileFunc): a contract "iface T.f" without
	// a modifies clause states the ASSUMED frame "whatever is stored there touches no state modelled here"
	if tn, fname := dynCallFieldOwner(c.Value); tn != nil {
		if pi := x.vc.uni.pkgs[pkgPathOf(tn)]; pi != nil && pi.Contracts != nil {
			if fc := pi.Contracts.Funcs[tn.Obj().Name()+"."+fname]; fc != nil && fc.Iface && !fc.ModAll && len(fc.Modifies) == 0 {
				x.note("assumed frame: the function stored in field " + tn.Obj().Name() + "." + fname + " changes no state the contracts talk about")
				return x.havocCall(fr, st, "field function "+fname, resT, false)
			}
		}
	}
	return x.havocCall(fr, st, "dynamic call", resT, true)
}

// dynCallFieldOwner: for a call whose function value is loaded from a field of a named struct type, that type and the field name.
func dynCallFieldOwner(v ssa.Value) (*types.Named, string) {
	u, ok := v.(*ssa.UnOp)
	if !ok {
		return nil, ""
	}
	fa, ok := u.X.(*ssa.FieldAddr)
	if !ok {
		return nil, ""
	}
	pt, ok := fa.X.Type().Underlying().(*types.Pointer)
	if !ok {
		return nil, ""
	}
	n, ok := types.Unalias(pt.Elem()).(*types.Named)
	if !ok {
		return nil, ""
	}
	st, ok := n.Underlying().(*types.Struct)
	if !ok {
		return nil, ""
	}
	return n, st.Field(fa.Field).Name()
}

func (x *Exec) callFunction(fr *Frame, st *State, callee *ssa.Function, args []Value, binds []Value, pos token.Pos, resT types.Type) Value {
	full := fullName(callee)
	if sf, ok := stubs[full]; ok {
		return sf(x, fr, st, callee, args, pos)
	}
	if callee.Origin() != nil {
		if sf, ok := stubs[fullName(callee.Origin())]; ok {
			return sf(x, fr, st, callee, args, pos)
		}
	}
	explicitAbstract := false
	if fr.top.fc != nil {
		for _, a := range fr.top.fc.Abstract {
			if a == callee.Name() || a == full {
				explicitAbstract = true
			}
		}
	}
	u := x.vc.uni
	if fc, pkg := u.contractFor(callee); !explicitAbstract && fc != nil && !fc.Inline && callee != fr.top.fn || fc != nil && callee == fr.top.fn {
		// (a recursive call always goes through the contract)
		return x.contractCall(fr, st, callee, fc, pkg, args, binds, pos, resT)
	}
	if !explicitAbstract && x.canInline(fr, callee) {
		return x.inlineCall(fr, st, callee, args, binds, pos, resT)
	}
	if callee.Name() == "init" && callee.Synthetic != "" && fr.fn.Name() == "init" && fr.fn.Synthetic != "" {
		// initialisers of imported packages run before this one and cannot name its variables
		// (import cycles are illegal); what they do to their own state is unknown here anyway
		x.note("imported package initialisers are skipped (they cannot touch this package's variables)")
		return Value{K: KTuple}
	}
	ms := x.fnEffects(callee, 0)
	if isPureLib(full) {
		x.note("abstracted (pure library call, result unconstrained): " + full)
		return x.havocCall(fr, st, full, resT, false)
	}
	x.note("abstracted (call havocked): " + full)
	if !ms.all {
		return x.havocCallMS(fr, st, full, resT, ms)
	}
	return x.havocCall(fr, st, full, resT, true)
}

func (x *Exec) canInline(fr *Frame, callee *ssa.Function) bool {
	if len(callee.Blocks) == 0 || fr.depth >= 5 {
		return false
	}
	if !inRepo(callee) {
		return false
	}
	// never inline across modules: the root module compiles against module-cache copies of the
	// sub-modules, so only the working-tree package itself is "the code that runs" here
	if pi := x.vc.uni.pkgOf(callee); pi == nil || !pi.Local {
		return false
	}
	for _, f := range x.inlineStack {
		if f == callee {
			return false
		}
	}
	if len(callee.Blocks) > 60 {
		return false
	}
	fc, _ := x.vc.uni.contractFor(callee)
	loops := findLoops(callee)
	for _, li := range loops {
		if fc == nil || fc.Loops[li.Ordinal] == nil {
			return false
		}
	}
	for _, b := range callee.Blocks {
		for _, ins := range b.Instrs {
			switch ins.(type) {
			case *ssa.Go, *ssa.Select, *ssa.Send, *ssa.MakeChan:
				return false
			}
		}
	}
	if callee.Recover != nil {
		return false
	}
	return true
}

func (x *Exec) inlineCall(fr *Frame, st *State, callee *ssa.Function, args []Value, binds []Value, pos token.Pos, resT types.Type) Value {
	x.nframes++
	fc, pkg := x.vc.uni.contractFor(callee)
	if pkg == nil {
		pkg = x.vc.uni.pkgOf(callee)
	}
	nf := &Frame{fn: callee, env: map[ssa.Value]Value{}, id: x.nframes, depth: fr.depth + 1, fc: fc, pkg: pkg, top: fr.top, parent: fr,
		loopHead: map[*LoopInfo]State{}, loopVariant: map[*LoopInfo]*Term{}}
	if len(args) != len(callee.Params) {
		unsupported("inline %s: arity mismatch", callee.Name())
	}
	for i, p := range callee.Params {
		a := args[i]
		a.T = p.Type()
		nf.env[p] = a
		nf.params = append(nf.params, a)
	}
	for i, fv := range callee.FreeVars {
		if i >= len(binds) {
			unsupported("inline %s: missing free variable binding", callee.Name())
		}
		nf.env[fv] = binds[i]
	}
	nf.entry = st.clone()
	x.inlineStack = append(x.inlineStack, callee)
	x.execBody(nf, *st)
	x.inlineStack = x.inlineStack[:len(x.inlineStack)-1]
	if len(nf.rets) == 0 {
		// callee never returns normally
		st.Reach = TFalse
		return x.zeroValue(resT)
	}
	res, ms := x.mergeRets(fmt.Sprintf("f%d.ret", nf.id), nf.rets, resT)
	*st = ms
	return res
}

func (x *Exec) mergeRets(name string, rets []RetSite, resT types.Type) (Value, State) {
	var ins []State
	for _, r := range rets {
		ins = append(ins, r.St)
	}
	ms := x.mergeStates(name, ins)
	ms.Reach = x.vc.define("R."+name, ms.Reach)
	var res Value
	n := len(rets[0].Results)
	var fields []Value
	for k := 0; k < n; k++ {
		var v Value
		for j := len(rets) - 1; j >= 0; j-- {
			if j == len(rets)-1 {
				v = rets[j].Results[k]
			} else {
				v = x.mergeValues(rets[j].St.Reach, rets[j].Results[k], v)
			}
		}
		fields = append(fields, v)
	}
	switch n {
	case 0:
		res = Value{K: KTuple}
	case 1:
		res = fields[0]
	default:
		res = Value{T: resT, K: KTuple, Fields: fields}
	}
	return res, ms
}

func (x *Exec) havocHeap(st *State, why string, ms *ModSet) {
	for _, k := range sortedKeys(st.H) {
		if k == "$alloc" {
			continue
		}
		if ms != nil && !ms.all && !prefixMatches(k, ms.prefixes) {
			continue
		}
		if x.vc.uni.finalGlobalComp(k) {
			continue
		}
		if strings.HasPrefix(k, "Lock.") && (ms == nil || ms.all || !prefixMatches(k, ms.prefixes)) {
			// the ghost lock state changes only through Lock/Unlock themselves: callees under contract
			// are lock-balanced (obligation lock.balanced), callees without one are assumed to be
			continue
		}
		oldK := st.H[k]
		st.H[k] = x.vc.fresh("H."+k+"@havoc", st.H[k].S)
		x.keepMonotone(k, oldK, st.H[k])
	}
	a := x.alloc(st)
	na := x.vc.fresh("alloc@havoc", SInt)
	x.vc.assume(iGe(na, a))
	st.H["$alloc"] = na
}

func (x *Exec) havocCall(fr *Frame, st *State, what string, resT types.Type, heap bool) Value {
	if heap {
		x.havocHeapKeep(fr, st, what, nil)
	}
	if tt, ok := resT.(*types.Tuple); ok && tt.Len() == 0 {
		return Value{K: KTuple}
	}
	return x.havocValue(st, resT, "call")
}

func (x *Exec) havocCallMS(fr *Frame, st *State, what string, resT types.Type, ms ModSet) Value {
	if len(ms.prefixes) > 0 || ms.allocs {
		x.havocHeapKeep(fr, st, what, &ms)
	}
	if tt, ok := resT.(*types.Tuple); ok && tt.Len() == 0 {
		return Value{K: KTuple}
	}
	return x.havocValue(st, resT, "call")
}

// ---- contract calls

func (x *Exec) contractCall(fr *Frame, st *State, callee *ssa.Function, fc *FuncContract, pkg *PkgInfo, args []Value, binds []Value, pos token.Pos, resT types.Type) Value {
	var names []string
	var ptypes []types.Type
	for _, p := range callee.Params {
		names = append(names, p.Name())
		ptypes = append(ptypes, p.Type())
	}
	// a closure under contract: the variables it captures are named in its contract; bind them to
	// their values at the call (captured by reference: the cell's current content)
	x.closureBinds = nil
	if len(binds) == len(callee.FreeVars) && len(binds) > 0 {
		x.closureBinds = map[string]Value{}
		for i, fv := range callee.FreeVars {
			v := binds[i]
			if v.K == KPtr && callee.Parent() != nil && isCapturedCell(callee.Parent(), fv) {
				v = x.loadLoc(st, v.Loc)
			}
			x.closureBinds[fv.Name()] = v
		}
	}
	defer func() { x.closureBinds = nil }()
	return x.contractCallSig(fr, st, callee.Name(), names, ptypes, callee.Signature, callee, fc, pkg, args, pos, resT)
}

// contractCallSig applies a contract at a call site: preconditions become obligations, the declared frame is
// havocked, the postconditions are assumed. callee is nil for interface methods (names/ptypes describe the
// receiver, called "self", followed by the method's parameters).
func (x *Exec) contractCallSig(fr *Frame, st *State, name string, names []string, ptypes []types.Type, sig *types.Signature, callee *ssa.Function, fc *FuncContract, pkg *PkgInfo, args []Value, pos token.Pos, resT types.Type) Value {
	env := &CEnv{x: x, fr: fr, st: st, pkg: pkg, vars: map[string]Value{}, mode: x.m(), calleeEnv: true}
	for n, v := range x.closureBinds {
		env.vars[n] = v
	}
	for i, pn := range names {
		if i < len(args) {
			a := args[i]
			a.T = ptypes[i]
			env.vars[pn] = a
		}
	}
	// receiver non-nil
	if callee != nil && callee.Signature.Recv() != nil && len(args) > 0 && args[0].K == KPtr && !fc.NilOK {
		o := x.vc.oblige("pre@"+name, Implies(st.Reach, Not(Eq(args[0].Loc.Root, nilRef))), x.posOf(fr.fn, pos), "receiver of "+name+" is non-nil")
		_ = o
		x.vc.assume(Implies(st.Reach, Not(Eq(args[0].Loc.Root, nilRef))))
	}
	env.goal = true
	for k, rq := range fc.Requires {
		g := env.evalBool(rq.Expr)
		o := x.vc.oblige("pre@"+name, Implies(st.Reach, g), x.posOf(fr.fn, pos), fmt.Sprintf("precondition %d of %s: %s", k+1, name, rq.Src))
		o.Clause = rq.Src
		if fr.top.fc == nil || !fr.top.fc.NoPre {
			// (with "nopre" the precondition is not proved, so it may not be assumed either: the
			// callee's postconditions are then used as if its precondition held)
			x.vc.assume(Implies(st.Reach, g))
		}
	}
	canon := true
	for _, a := range args {
		if a.K == KPtr && !a.isCanonical() {
			canon = false // pointers into objects have no single reference to stand for them
		}
	}
	if callee != nil && canon && pureScalarFn(callee, fc) {
		// deterministic: one uninterpreted application, constrained by the ensures
		return x.pureCallValue(fr, st, callee, fc, pkg, args)
	}
	pre := st.clone()
	// frame
	if fc.ModAll {
		x.havocHeapKeep(fr, st, name, nil)
	} else {
		for _, me := range fc.Modifies {
			x.havocModifies(env, st, &pre, me)
		}
		if !fc.Pure {
			a := x.alloc(st)
			na := x.vc.fresh("alloc@"+name, SInt)
			x.vc.assume(iGe(na, a))
			st.H["$alloc"] = na
		}
	}
	var res Value
	if tt, ok := resT.(*types.Tuple); ok && tt.Len() == 0 {
		res = Value{K: KTuple}
	} else {
		res = x.havocValue(st, resT, "r."+name)
	}
	post := &CEnv{x: x, fr: fr, st: st, old: &pre, pkg: pkg, vars: env.vars, mode: x.m(), hasResult: true, result: res, sig: sig, calleeEnv: true}
	if fc.Where != nil {
		post.whereExpr = fc.Where.Expr
	}
	// the callee's logical variables are universally quantified in what the caller learns
	var gvars [][2]string
	var gguards []*Term
	if len(fc.GhostVars) > 0 {
		post.bound = map[string]Value{}
		x.vc.nfresh++
		for _, g := range fc.GhostVars {
			name := fmt.Sprintf("%s!g%d", g.Name, x.vc.nfresh)
			sort := x.m().specSort(g.Type)
			s := Sym(name, sort)
			t, _ := basicByName(g.Type)
			if t != nil {
				if it, ok := intTyOf(t); ok {
					gguards = append(gguards, x.m().inRange(s, it))
				}
			}
			post.bound[g.Name] = Value{K: KScalar, T: t, X: s}
			gvars = append(gvars, [2]string{name, sort})
		}
	}
	for _, en := range fc.Ensures {
		if len(gvars) > 0 && (ceMentions(en.Expr, fc.GhostVars) || ceMentions(en.Expr, []Param{{Name: "where"}})) {
			// quantified over the callee's logical variables: only on request (keeps queries quantifier-free)
			wanted := false
			if fr.top.fc != nil {
				for _, im := range fr.top.fc.Imports {
					if im == name+"["+en.Tag+"]" || im == name {
						wanted = true
					}
				}
			}
			if !wanted {
				continue
			}
			x.vc.sideStack = append(x.vc.sideStack, nil)
			body := post.evalBool(en.Expr)
			side := x.vc.sideStack[len(x.vc.sideStack)-1]
			x.vc.sideStack = x.vc.sideStack[:len(x.vc.sideStack)-1]
			x.vc.assume(Implies(st.Reach, Forall(gvars, Implies(And(gguards...), And(append(side, body)...)))))
			continue
		}
		x.vc.assume(Implies(st.Reach, post.evalBool(en.Expr)))
	}
	return res
}

func ceMentions(e *CE, ps []Param) bool {
	if e == nil {
		return false
	}
	if e.Kind == "id" {
		for _, p := range ps {
			if p.Name == e.Name {
				return true
			}
		}
	}
	for _, a := range e.Args {
		if ceMentions(a, ps) {
			return true
		}
	}
	return false
}

// havocModifies havocs the storage denoted by a modifies-expression.
func (x *Exec) havocModifies(env *CEnv, st *State, pre *State, me *CE) {
	m := x.m()
	ixT := IntTy{64, true}
	if me.Kind == "id" && me.Name == "maps" {
		// "modifies maps": the contents of every Go map may change (maps are not first-class designators)
		for _, k := range sortedKeys(st.H) {
			if strings.HasPrefix(k, "Map.") {
				st.H[k] = x.vc.fresh("mod."+k, st.H[k].S)
			}
		}
		return
	}
	if me.Kind == "call" && me.Name == "all" && len(me.Args) == 1 {
		// "modifies all(pkg.T.f)": field f of EVERY object of type T may change (caches filled lazily
		// behind a whole collection of objects, e.g. the hash caches of a block's transactions)
		pre := me.Args[0].String()
		for _, k := range sortedKeys(st.H) {
			if k == pre || strings.HasPrefix(k, pre+".") {
				st.H[k] = x.vc.fresh("mod."+k, st.H[k].S)
			}
		}
		return
	}
	if me.Kind == "call" && me.Name == "stream" && len(me.Args) == 1 {
		// "modifies stream(w)": the ghost byte stream (and position) of one reader/writer value
		save := env.st
		env.st = pre
		w := env.eval(me.Args[0])
		env.st = save
		if w.K != KIface {
			unsupported("stream() of a non-interface value")
		}
		for _, cn := range []string{"Io.out", "Io.outlen", "Io.pos"} {
			c := x.ioComp(st, cn, cn == "Io.out")
			_, inner, _ := arrSorts(c.S)
			st.H[cn] = Store(c, w.X, x.vc.fresh("mod."+cn, inner))
		}
		return
	}
	star := false
	if me.Kind == "field" && me.Name == "*" {
		star = true
		me = me.Args[0]
	}
	save := env.st
	env.st = pre
	v := env.eval(me)
	env.st = save
	switch {
	case v.K == KSlice && (me.Kind != "field" || star):
		// contents of the slice's range may change
		for _, lf := range m.flatten(v.Loc.T) {
			name := v.Loc.Prefix + lf.Suffix
			c := x.comp(st, name, x.compSortFor(lf.Sort, len(v.Loc.Elems)+1))
			oldArr := nestedSelect(c, v.Loc.indices())
			na := x.vc.fresh("mod."+name, oldArr.S)
			k := Sym("k!m", m.ixSort())
			end := x.ixAdd(v.Off, v.Len)
			x.vc.assume(Forall([][2]string{{"k!m", m.ixSort()}}, Implies(Or(m.cmp(token.LSS, k, v.Off, ixT), m.cmp(token.GEQ, k, end, ixT)), Eq(Select(na, k), Select(oldArr, k)))))
			st.H[name] = nestedStore(c, v.Loc.indices(), na)
		}
	case v.K == KPtr && star || v.K == KPtr && me.Kind != "field":
		// all fields of the pointee
		for _, lf := range m.flatten(v.Loc.T) {
			name := v.Loc.Prefix + lf.Suffix
			c := x.comp(st, name, x.compSortFor(lf.Sort, len(v.Loc.Elems)))
			st.H[name] = nestedStore(c, v.Loc.indices(), x.vc.fresh("mod."+name, lf.Sort))
		}
	default:
		// a field designator: re-evaluate as location
		loc := env.evalLoc(me, pre)
		for _, lf := range m.flatten(loc.T) {
			name := loc.Prefix + lf.Suffix
			c := x.comp(st, name, x.compSortFor(lf.Sort, len(loc.Elems)))
			st.H[name] = nestedStore(c, loc.indices(), x.vc.fresh("mod."+name, lf.Sort))
		}
	}
}

// ---- builtins

func (x *Exec) builtin(fr *Frame, st *State, bi *ssa.Builtin, c *ssa.CallCommon, pos token.Pos, site *ssa.Call) Value {
	m := x.m()
	ixT := IntTy{64, true}
	var args []Value
	for _, a := range c.Args {
		args = append(args, x.get(fr, st, a))
	}
	switch bi.Name() {
	case "len":
		a := args[0]
		switch a.K {
		case KSlice, KString:
			return Value{K: KScalar, X: a.Len}
		case KArray:
			return Value{K: KScalar, X: m.ix(a.T.Underlying().(*types.Array).Len())}
		case KPtr:
			return Value{K: KScalar, X: m.ix(a.Loc.T.Underlying().(*types.Array).Len())}
		case KMap:
			return Value{K: KScalar, X: x.mapLen(st, a)}
		}
		unsupported("len of %v", a.K)
	case "cap":
		a := args[0]
		switch a.K {
		case KSlice:
			return Value{K: KScalar, X: a.Cap}
		case KArray:
			return Value{K: KScalar, X: m.ix(a.T.Underlying().(*types.Array).Len())}
		}
		unsupported("cap of %v", a.K)
	case "min", "max":
		it, ok := intTyOf(args[0].T)
		if !ok {
			it, ok = intTyOf(c.Args[0].Type())
		}
		if !ok {
			return x.havocValue(st, c.Args[0].Type(), "minmax")
		}
		r := args[0].X
		for _, a := range args[1:] {
			if bi.Name() == "min" {
				r = Ite(m.cmp(token.LSS, a.X, r, it), a.X, r)
			} else {
				r = Ite(m.cmp(token.GTR, a.X, r, it), a.X, r)
			}
		}
		return Value{K: KScalar, X: r}
	case "copy":
		dst, src := args[0], args[1]
		n := Ite(m.cmp(token.LSS, dst.Len, src.Len, ixT), dst.Len, src.Len)
		n = x.vc.define(fmt.Sprintf("f%d.copyn", fr.id), n)
		x.copyInto(st, dst, dst.Off, src, n)
		return Value{K: KScalar, X: n}
	case "append":
		return x.appendOp(fr, st, args[0], args[1], site)
	case "delete":
		x.mapDelete(fr, st, args[0], args[1])
		return Value{K: KTuple}
	case "ssa:wrapnilchk":
		return args[0]
	case "print", "println":
		return Value{K: KTuple}
	case "clear":
		unsupported("builtin clear")
	}
	unsupported("builtin %s", bi.Name())
	return Value{}
}

// elemAt reads element (off+k) leaf-wise from a slice or string source.
func (x *Exec) srcElemLeaves(st *State, src Value, idx *Term) []*Term {
	m := x.m()
	if src.K == KString {
		return []*Term{Select(src.X, idx)}
	}
	var out []*Term
	for _, lf := range m.flatten(src.Loc.T) {
		c := x.comp(st, src.Loc.Prefix+lf.Suffix, x.compSortFor(lf.Sort, len(src.Loc.Elems)+1))
		out = append(out, Select(nestedSelect(c, src.Loc.indices()), x.ixAdd(src.Off, idx)))
	}
	return out
}

// copyInto writes n elements of src (from its start) into dst's storage at absolute index dstPos.
func (x *Exec) copyInto(st *State, dst Value, dstPos *Term, src Value, n *Term) {
	m := x.m()
	ixT := IntTy{64, true}
	pre := st.clone()
	lfs := m.flatten(dst.Loc.T)
	if cn, ok := litValue(n); ok && cn.IsInt64() && cn.Int64() <= 40 {
		for k := int64(0); k < cn.Int64(); k++ {
			sl := x.srcElemLeaves(&pre, src, m.ix(k))
			for li, lf := range lfs {
				name := dst.Loc.Prefix + lf.Suffix
				c := x.comp(st, name, x.compSortFor(lf.Sort, len(dst.Loc.Elems)+1))
				idx := appendTerm(dst.Loc.indices(), x.ixAdd(dstPos, m.ix(k)))
				st.H[name] = nestedStore(c, idx, sl[li])
			}
		}
		return
	}
	for li, lf := range lfs {
		name := dst.Loc.Prefix + lf.Suffix
		c := x.comp(st, name, x.compSortFor(lf.Sort, len(dst.Loc.Elems)+1))
		oldArr := nestedSelect(c, dst.Loc.indices())
		na := x.vc.fresh("copy."+name, oldArr.S)
		k := Sym("k!p", m.ixSort())
		inr := And(m.cmp(token.LEQ, dstPos, k, ixT), m.cmp(token.LSS, k, x.ixAdd(dstPos, n), ixT))
		sl := x.srcElemLeaves(&pre, src, x.ixSub(k, dstPos))
		x.vc.assume(Forall([][2]string{{"k!p", m.ixSort()}}, Eq(Select(na, k), Ite(inr, sl[li], Select(oldArr, k))), Select(na, k)))
		st.H[name] = nestedStore(c, dst.Loc.indices(), na)
	}
}

func (x *Exec) appendOp(fr *Frame, st *State, s, t Value, site *ssa.Call) Value {
	m := x.m()
	ixT := IntTy{64, true}
	if s.K != KSlice {
		unsupported("append to non-slice")
	}
	if len(s.Loc.Elems) != 0 || s.Loc.Prefix != "Mem."+typeKey(s.Loc.T) {
		unsupported("append to a slice over embedded storage")
	}
	tlen := t.Len
	if t.K == KSlice && isNilLit(t.Loc.Root) {
		tlen = m.ix(0)
	}
	n := x.vc.define(fmt.Sprintf("f%d.appn", fr.id), x.ixAdd(s.Len, tlen))
	fits := m.cmp(token.LEQ, n, s.Cap, ixT)
	// in-place branch
	inPlace := st.clone()
	inPlace.Reach = And(st.Reach, fits)
	x.copyInto(&inPlace, s, x.ixAdd(s.Off, s.Len), t, tlen)
	// fresh branch
	grown := st.clone()
	grown.Reach = And(st.Reach, Not(fits))
	r := x.newRef(&grown, fmt.Sprintf("f%d.append", fr.id))
	ncap := x.vc.fresh("appcap", m.ixSort())
	x.vc.assume(And(m.cmp(token.GEQ, ncap, n, ixT), m.cmp(token.LEQ, ncap, m.lit(pow2(56), ixT), ixT)))
	nl := &Loc{Prefix: s.Loc.Prefix, Root: r, T: s.Loc.T}
	fresh := Value{T: s.T, K: KSlice, Loc: nl, Off: m.ix(0), Len: n, Cap: ncap}
	x.copyInto(&grown, fresh, m.ix(0), s, s.Len)
	x.copyInto(&grown, fresh, s.Len, t, tlen)
	merged := x.mergeStates(fmt.Sprintf("f%d.append%d", fr.id, x.vc.nfresh), []State{inPlace, grown})
	merged.Reach = st.Reach
	*st = merged
	return Value{T: s.T, K: KSlice, Loc: &Loc{Prefix: s.Loc.Prefix, Root: Ite(fits, s.Loc.Root, r), T: s.Loc.T},
		Off: Ite(fits, s.Off, m.ix(0)), Len: n, Cap: Ite(fits, s.Cap, ncap)}
}

// ---- stubs

type stubFn func(x *Exec, fr *Frame, st *State, callee *ssa.Function, args []Value, pos token.Pos) Value

var stubs = map[string]stubFn{}

func stubEffects(full string) ModSet {
	ms := newModSet()
	if strings.Contains(full, ".Put") || strings.Contains(full, "AppendUint") {
		ms.prefixes["Mem.u8"] = true
	}
	if e, ok := stubEffectTable[full]; ok {
		return e()
	}
	return ms
}

var stubEffectTable = map[string]func() ModSet{}

func init() {
	for _, end := range []string{"littleEndian", "bigEndian"} {
		for _, w := range []int{16, 32, 64} {
			end, w := end, w
			stubs[fmt.Sprintf("(encoding/binary.%s).Uint%d", end, w)] = func(x *Exec, fr *Frame, st *State, callee *ssa.Function, args []Value, pos token.Pos) Value {
				return x.stubGetUint(fr, st, args[1], w, end == "littleEndian", pos)
			}
			stubs[fmt.Sprintf("(encoding/binary.%s).PutUint%d", end, w)] = func(x *Exec, fr *Frame, st *State, callee *ssa.Function, args []Value, pos token.Pos) Value {
				x.stubPutUint(fr, st, args[1], args[2], w, end == "littleEndian", pos)
				return Value{K: KTuple}
			}
		}
	}
	stubs["bytes.Equal"] = func(x *Exec, fr *Frame, st *State, callee *ssa.Function, args []Value, pos token.Pos) Value {
		return Value{K: KScalar, X: x.bytesEqual(st, args[0], args[1])}
	}
	// hash/crc32.Checksum(data, table): an uninterpreted function of the bytes data[0:len) and the table
	// (assumed: the checksum is a deterministic function of exactly those)
	stubs["hash/crc32.Checksum"] = func(x *Exec, fr *Frame, st *State, callee *ssa.Function, args []Value, pos token.Pos) Value {
		if args[0].K != KSlice {
			unsupported("crc32.Checksum of non-slice")
		}
		var ts []*Term
		ts = append(ts, x.pureArgTerms(st, args[0])...)
		tab := args[1]
		if tab.K == KPtr && tab.Loc != nil {
			ts = append(ts, tab.Loc.Root)
		} else if tab.X != nil {
			ts = append(ts, tab.X)
		} else {
			unsupported("crc32 table argument")
		}
		res := x.pureAppNamed("fn.crc32.Checksum", x.m().leafSort(types.Typ[types.Uint32]), ts)
		x.sliceExtensionality(callee, []Value{args[0], {K: KScalar, X: ts[len(ts)-1]}}, ts, res)
		v := Value{T: types.Typ[types.Uint32], K: KScalar, X: res}
		x.assumeTypeInv(st, v)
		return v
	}
	stubEffectTable["hash/crc32.Checksum"] = newModSet
	stubs["bytes.HasPrefix"] = func(x *Exec, fr *Frame, st *State, callee *ssa.Function, args []Value, pos token.Pos) Value {
		return Value{K: KScalar, X: x.bytesHasPrefix(st, args[0], args[1])}
	}
	stubEffectTable["bytes.HasPrefix"] = newModSet
	// bytes.TrimRight(s, cutset) with a cutset of known small length: the result is the prefix s[:n]
	// where every byte from n on is in the cutset and byte n-1 (if any) is not.
	stubs["bytes.TrimRight"] = func(x *Exec, fr *Frame, st *State, callee *ssa.Function, args []Value, pos token.Pos) Value {
		m := x.m()
		ixT := IntTy{64, true}
		s, cut := args[0], args[1]
		cn, ok := litValue(cut.Len)
		if s.K != KSlice || cut.K != KString || !ok || !cn.IsInt64() || cn.Int64() < 1 || cn.Int64() > 4 {
			unsupported("bytes.TrimRight with a cutset of unknown length")
		}
		inCut := func(b *Term) *Term {
			c := TFalse
			for k := int64(0); k < cn.Int64(); k++ {
				c = Or(c, Eq(b, Select(cut.X, m.ix(k))))
			}
			return c
		}
		n := x.vc.fresh("trimright.n", m.ixSort())
		k := Sym("k!t", m.ixSort())
		x.vc.assume(Implies(st.Reach, And(m.cmp(token.LEQ, m.ix(0), n, ixT), m.cmp(token.LEQ, n, s.Len, ixT))))
		x.vc.assume(Implies(st.Reach, Forall([][2]string{{"k!t", m.ixSort()}},
			Implies(And(m.cmp(token.LEQ, n, k, ixT), m.cmp(token.LSS, k, s.Len, ixT)), inCut(x.srcElemLeaves(st, s, k)[0])))))
		x.vc.assume(Implies(And(st.Reach, m.cmp(token.GTR, n, m.ix(0), ixT)), Not(inCut(x.srcElemLeaves(st, s, x.ixSub(n, m.ix(1)))[0]))))
		// (an empty result of bytes.TrimRight is nil in the library; callers here only convert or measure it)
		return Value{T: s.T, K: KSlice, Loc: s.Loc, Off: s.Off, Len: n, Cap: s.Cap}
	}
	stubEffectTable["bytes.TrimRight"] = newModSet
	// bytes.IndexByte(s, c): the first index holding c, or -1 when there is none.
	stubs["bytes.IndexByte"] = func(x *Exec, fr *Frame, st *State, callee *ssa.Function, args []Value, pos token.Pos) Value {
		m := x.m()
		ixT := IntTy{64, true}
		s, c := args[0], args[1]
		if s.K != KSlice || c.K != KScalar {
			unsupported("bytes.IndexByte of a non-slice")
		}
		r := x.vc.fresh("indexbyte.r", m.ixSort())
		k := Sym("k!i", m.ixSort())
		none := Forall([][2]string{{"k!i", m.ixSort()}}, Implies(And(m.cmp(token.LEQ, m.ix(0), k, ixT), m.cmp(token.LSS, k, s.Len, ixT)), Not(Eq(x.srcElemLeaves(st, s, k)[0], c.X))))
		first := And(m.cmp(token.LEQ, m.ix(0), r, ixT), m.cmp(token.LSS, r, s.Len, ixT), Eq(x.srcElemLeaves(st, s, r)[0], c.X),
			Forall([][2]string{{"k!i", m.ixSort()}}, Implies(And(m.cmp(token.LEQ, m.ix(0), k, ixT), m.cmp(token.LSS, k, r, ixT)), Not(Eq(x.srcElemLeaves(st, s, k)[0], c.X)))))
		x.vc.assume(Implies(st.Reach, Or(And(Eq(r, m.ix(-1)), none), first)))
		return Value{T: types.Typ[types.Int], K: KScalar, X: r}
	}
	stubEffectTable["bytes.IndexByte"] = newModSet
	// strings.IndexByte(s, c) / strings.LastIndexByte(s, c): the first / last index holding c, or -1.
	for _, last := range []bool{false, true} {
		last := last
		name := "strings.IndexByte"
		if last {
			name = "strings.LastIndexByte"
		}
		stubs[name] = func(x *Exec, fr *Frame, st *State, callee *ssa.Function, args []Value, pos token.Pos) Value {
			m := x.m()
			ixT := IntTy{64, true}
			s, c := args[0], args[1]
			if s.K != KString || c.K != KScalar {
				unsupported(name + " of a non-string")
			}
			r := x.vc.fresh("strindexbyte.r", m.ixSort())
			k := Sym("k!i", m.ixSort())
			inRange := func(lo, hi *Term) *Term { return And(m.cmp(token.LEQ, lo, k, ixT), m.cmp(token.LSS, k, hi, ixT)) }
			none := Forall([][2]string{{"k!i", m.ixSort()}}, Implies(inRange(m.ix(0), s.Len), Not(Eq(Select(s.X, k), c.X))))
			var rest *Term
			if last {
				rest = Forall([][2]string{{"k!i", m.ixSort()}}, Implies(And(m.cmp(token.LSS, r, k, ixT), m.cmp(token.LSS, k, s.Len, ixT)), Not(Eq(Select(s.X, k), c.X))))
			} else {
				rest = Forall([][2]string{{"k!i", m.ixSort()}}, Implies(inRange(m.ix(0), r), Not(Eq(Select(s.X, k), c.X))))
			}
			found := And(m.cmp(token.LEQ, m.ix(0), r, ixT), m.cmp(token.LSS, r, s.Len, ixT), Eq(Select(s.X, r), c.X), rest)
			x.vc.assume(Implies(st.Reach, Or(And(Eq(r, m.ix(-1)), none), found)))
			return Value{T: types.Typ[types.Int], K: KScalar, X: r}
		}
		stubEffectTable[name] = newModSet
	}
	noop := func(x *Exec, fr *Frame, st *State, callee *ssa.Function, args []Value, pos token.Pos) Value {
		return Value{K: KTuple}
	}
	_ = noop
	// math/bits.Len*(x): the minimum number of bits to represent x (0 for x == 0), as a table
	for name, w := range map[string]int{"math/bits.Len64": 64, "math/bits.Len32": 32, "math/bits.Len16": 16, "math/bits.Len8": 8, "math/bits.Len": 64} {
		width := w
		stubs[name] = func(x *Exec, fr *Frame, st *State, callee *ssa.Function, args []Value, pos token.Pos) Value {
			if x.m() != ModeInt || len(args) != 1 || args[0].K != KScalar {
				return x.havocValue(st, types.Typ[types.Int], "bitslen")
			}
			res := IntLit(int64(width))
			for k := width - 1; k >= 0; k-- {
				res = Ite(iLt(args[0].X, IntLitBig(pow2(k))), IntLit(int64(k)), res)
			}
			return Value{T: types.Typ[types.Int], K: KScalar, X: res}
		}
		stubEffectTable[name] = newModSet
	}
	// Mutexes: a ghost lock state per mutex (0 = not held by this call chain, 1 = read-held, 2 =
	// write-held), kept in heap components "Lock.<static location>" indexed by the owning object; the
	// contract builtins wheld(m) / rheld(m) / unheld(m) read it. Only the sequential discipline of one
	// call chain is modelled (which lock is held where), not other goroutines.
	lockEff := func() ModSet { ms := newModSet(); ms.prefixes["Lock"] = true; return ms }
	for n, v := range map[string]int64{"(*sync.Mutex).Lock": 2, "(*sync.Mutex).Unlock": 0, "(*sync.RWMutex).Lock": 2, "(*sync.RWMutex).Unlock": 0, "(*sync.RWMutex).RLock": 1, "(*sync.RWMutex).RUnlock": 0} {
		val := v
		stubs[n] = func(x *Exec, fr *Frame, st *State, callee *ssa.Function, args []Value, pos token.Pos) Value {
			if len(args) == 1 && args[0].K == KPtr && args[0].Loc != nil && len(args[0].Loc.Elems) == 0 {
				name := "Lock." + args[0].Loc.Prefix
				c := x.comp(st, name, SArr(SInt, SInt))
				st.H[name] = Store(c, args[0].Loc.Root, IntLit(val))
			} else {
				// a mutex that is not a plain field of an object: every lock state becomes unknown
				for _, k := range sortedKeys(st.H) {
					if strings.HasPrefix(k, "Lock.") {
						st.H[k] = x.vc.fresh("H."+k+"@lock", st.H[k].S)
					}
				}
			}
			return Value{K: KTuple}
		}
		stubEffectTable[n] = lockEff
	}
}

// lockState reads the ghost lock state of the mutex at location l.
func (x *Exec) lockState(st *State, l *Loc) *Term {
	if l == nil || len(l.Elems) != 0 {
		unsupported("lock state of a mutex that is not a plain field")
	}
	return Select(x.comp(st, "Lock."+l.Prefix, SArr(SInt, SInt)), l.Root)
}

func (x *Exec) byteAt(st *State, s Value, k int64) *Term {
	m := x.m()
	return x.srcElemLeaves(st, s, m.ix(k))[0]
}

func (x *Exec) stubGetUint(fr *Frame, st *State, b Value, w int, little bool, pos token.Pos) Value {
	m := x.m()
	ixT := IntTy{64, true}
	nb := w / 8
	x.check(fr, st, "bounds", m.cmp(token.GEQ, b.Len, m.ix(int64(nb)), ixT), pos, fmt.Sprintf("binary.Uint%d: slice too short", w))
	it := IntTy{w, false}
	var r *Term
	for k := 0; k < nb; k++ {
		by := x.byteAt(st, b, int64(k))
		if m == ModeInt {
			x.vc.assumeOnce(m.inRange(by, IntTy{8, false}))
		}
		sh := k
		if !little {
			sh = nb - 1 - k
		}
		var part *Term
		if m == ModeInt {
			part = iMul(by, IntLitBig(pow2(8*sh)))
		} else {
			ext := by
			if w > 8 {
				ext = App(fmt.Sprintf("(_ zero_extend %d)", w-8), SBV(w), by)
			}
			part = App("bvshl", SBV(w), ext, BVLitBig(big.NewInt(int64(8*sh)), w))
		}
		if r == nil {
			r = part
		} else if m == ModeInt {
			r = iAdd(r, part)
		} else {
			r = App("bvor", SBV(w), r, part)
		}
	}
	return Value{T: types.Typ[map[int]types.BasicKind{16: types.Uint16, 32: types.Uint32, 64: types.Uint64}[w]], K: KScalar, X: x.vc.define(fmt.Sprintf("f%d.le%d", fr.id, w), r), Fields: nil, Off: nil, Len: nil, Cap: nil, Loc: nil, Fn: nil}.withIntTy(it)
}

func (v Value) withIntTy(it IntTy) Value { return v }

func (x *Exec) stubPutUint(fr *Frame, st *State, b Value, v Value, w int, little bool, pos token.Pos) {
	m := x.m()
	ixT := IntTy{64, true}
	nb := w / 8
	x.check(fr, st, "bounds", m.cmp(token.GEQ, b.Len, m.ix(int64(nb)), ixT), pos, fmt.Sprintf("binary.PutUint%d: slice too short", w))
	name := b.Loc.Prefix
	c := x.comp(st, name, x.compSortFor(m.intSort(IntTy{8, false}), len(b.Loc.Elems)+1))
	for k := 0; k < nb; k++ {
		sh := k
		if !little {
			sh = nb - 1 - k
		}
		var by *Term
		if m == ModeInt {
			by = bitsRun(v.X, 8*sh, 8*sh+8)
		} else {
			by = App(fmt.Sprintf("(_ extract %d %d)", 8*sh+7, 8*sh), SBV(8), v.X)
		}
		idx := appendTerm(b.Loc.indices(), x.ixAdd(b.Off, m.ix(int64(k))))
		c = nestedStore(c, idx, by)
	}
	st.H[name] = c
}

// bytes.HasPrefix(s, p): len(s) >= len(p) and the first len(p) bytes agree (Go documentation).
func (x *Exec) bytesHasPrefix(st *State, a, b Value) *Term {
	m := x.m()
	ixT := IntTy{64, true}
	if n, ok := litValue(b.Len); ok && n.IsInt64() && n.Int64() <= 64 {
		c := m.cmp(token.GEQ, a.Len, b.Len, ixT)
		for k := int64(0); k < n.Int64(); k++ {
			c = And(c, Eq(x.byteAt(st, a, k), x.byteAt(st, b, k)))
		}
		return c
	}
	k := Sym("k!p", m.ixSort())
	return And(m.cmp(token.GEQ, a.Len, b.Len, ixT), Forall([][2]string{{"k!p", m.ixSort()}},
		Implies(And(m.cmp(token.LEQ, m.ix(0), k, ixT), m.cmp(token.LSS, k, b.Len, ixT)),
			Eq(x.srcElemLeaves(st, a, k)[0], x.srcElemLeaves(st, b, k)[0]))))
}

func (x *Exec) bytesEqual(st *State, a, b Value) *Term {
	m := x.m()
	ixT := IntTy{64, true}
	if n, ok := litValue(b.Len); ok && n.IsInt64() && n.Int64() <= 64 {
		c := Eq(a.Len, b.Len)
		for k := int64(0); k < n.Int64(); k++ {
			c = And(c, Eq(x.byteAt(st, a, k), x.byteAt(st, b, k)))
		}
		return c
	}
	if n, ok := litValue(a.Len); ok && n.IsInt64() && n.Int64() <= 64 {
		return x.bytesEqual(st, b, a)
	}
	k := Sym("k!e", m.ixSort())
	return And(Eq(a.Len, b.Len), Forall([][2]string{{"k!e", m.ixSort()}},
		Implies(And(m.cmp(token.LEQ, m.ix(0), k, ixT), m.cmp(token.LSS, k, a.Len, ixT)),
			Eq(x.srcElemLeaves(st, a, k)[0], x.srcElemLeaves(st, b, k)[0]))))
}

// externalEffects: heap components an external function may write, from the types of its parameters.
func externalEffects(fn *ssa.Function) ModSet {
	ms := newModSet()
	ms.allocs = true
	seen := map[string]bool{}
	var walk func(t types.Type, d int)
	walk = func(t types.Type, d int) {
		if ms.all {
			return
		}
		if d > 6 {
			ms.all = true
			return
		}
		k := types.TypeString(t, nil)
		if seen[k] {
			return
		}
		seen[k] = true
		switch u := t.Underlying().(type) {
		case *types.Basic:
			if u.Kind() == types.UnsafePointer {
				ms.all = true
			}
		case *types.Pointer:
			el := u.Elem()
			ms.prefixes[canonPrefix(el)] = true
			if _, isStruct := el.Underlying().(*types.Struct); !isStruct {
				ms.prefixes["Cell."+typeKey(el)] = true
			}
			walk(el, d+1)
		case *types.Slice:
			ms.prefixes["Mem."+typeKey(u.Elem())] = true
			walk(u.Elem(), d+1)
		case *types.Array:
			walk(u.Elem(), d+1)
		case *types.Struct:
			for i := 0; i < u.NumFields(); i++ {
				walk(u.Field(i).Type(), d+1)
			}
		case *types.Tuple:
			for i := 0; i < u.Len(); i++ {
				walk(u.At(i).Type(), d+1)
			}
		default: // interface, func, map, chan, type parameter
			ms.all = true
		}
	}
	sig := fn.Signature
	if r := sig.Recv(); r != nil {
		walk(r.Type(), 0)
	}
	for i := 0; i < sig.Params().Len(); i++ {
		walk(sig.Params().At(i).Type(), 0)
	}
	if ms.all {
		ms.prefixes = map[string]bool{}
	}
	return ms
}
