package main

// Ghost byte streams for io.Reader / io.Writer values.
//
// A reader r has a content Io.in[r], a position Io.pos[r] and Io.avail[r], the number of bytes it
// will deliver before failing. io.ReadFull(r, b) succeeds iff len(b) more bytes are available; it
// then copies exactly those bytes and advances the position by len(b); otherwise it returns a
// non-nil error (position somewhere up to avail, buffer contents unspecified).
// A writer w has Io.out[w] and Io.outlen[w]: a Write that returns nil appended exactly its
// argument; a Write may fail at any time (then nothing is known about what was appended beyond
// the old prefix being kept). Assumed semantics of the io interfaces.

import (
	"fmt"
	"go/token"
	"go/types"

	"golang.org/x/tools/go/ssa"
)

func (x *Exec) ioComp(st *State, name string, twoLevel bool) *Term {
	m := x.m()
	if twoLevel {
		return x.comp(st, name, SArr(refSort, SArr(m.ixSort(), m.intSort(IntTy{8, false}))))
	}
	return x.comp(st, name, SArr(refSort, m.ixSort()))
}

func (x *Exec) ioReadFull(fr *Frame, st *State, r Value, buf Value, pos token.Pos) Value {
	m := x.m()
	ixT := IntTy{64, true}
	if r.K != KIface || buf.K != KSlice {
		unsupported("io.ReadFull on unexpected values")
	}
	x.check(fr, st, "nil", Not(Eq(r.X, nilRef)), pos, "io.ReadFull on nil reader")
	in := x.ioComp(st, "Io.in", true)
	p := Select(x.ioComp(st, "Io.pos", false), r.X)
	av := Select(x.ioComp(st, "Io.avail", false), r.X)
	x.vc.assumeOnce(And(m.cmp(token.LEQ, m.ix(0), p, ixT), m.cmp(token.LEQ, p, av, ixT)))
	n := buf.Len
	okc := x.vc.define(fmt.Sprintf("f%d.readok", fr.id), m.cmp(token.LEQ, x.ixAdd(p, n), av, ixT))
	// success branch
	good := st.clone()
	good.Reach = And(st.Reach, okc)
	src := Value{K: KString, X: Select(in, r.X), Len: av} // read-only byte sequence
	shifted := x.vc.fresh("rd", src.X.S)
	k := Sym("k!r", m.ixSort())
	x.vc.assume(Forall([][2]string{{"k!r", m.ixSort()}}, Eq(Select(shifted, k), Select(src.X, x.ixAdd(p, k))), Select(shifted, k)))
	x.copyInto(&good, buf, buf.Off, Value{K: KString, X: shifted, Len: n}, n)
	good.H["Io.pos"] = Store(x.ioComp(&good, "Io.pos", false), r.X, x.ixAdd(p, n))
	// failure branch
	bad := st.clone()
	bad.Reach = And(st.Reach, Not(okc))
	np := x.vc.fresh("rdpos", m.ixSort())
	x.vc.assume(And(m.cmp(token.LEQ, p, np, ixT), m.cmp(token.LEQ, np, av, ixT)))
	bad.H["Io.pos"] = Store(x.ioComp(&bad, "Io.pos", false), r.X, np)
	for _, lf := range m.flatten(buf.Loc.T) {
		name := buf.Loc.Prefix + lf.Suffix
		c := x.comp(&bad, name, x.compSortFor(lf.Sort, len(buf.Loc.Elems)+1))
		oldArr := nestedSelect(c, buf.Loc.indices())
		na := x.vc.fresh("rdjunk", oldArr.S)
		k2 := Sym("k!j", m.ixSort())
		x.vc.assume(Forall([][2]string{{"k!j", m.ixSort()}}, Implies(Or(m.cmp(token.LSS, k2, buf.Off, ixT), m.cmp(token.GEQ, k2, x.ixAdd(buf.Off, buf.Len), ixT)), Eq(Select(na, k2), Select(oldArr, k2))), Select(na, k2)))
		bad.H[name] = nestedStore(c, buf.Loc.indices(), na)
	}
	errRef := x.newRef(&bad, fmt.Sprintf("f%d.rderr", fr.id))
	good.H["$alloc"] = bad.H["$alloc"]
	merged := x.mergeStates(fmt.Sprintf("f%d.readfull%d", fr.id, x.vc.nfresh), []State{good, bad})
	merged.Reach = st.Reach
	*st = merged
	cnt := x.vc.fresh("rdn", m.ixSort())
	x.vc.assume(And(Implies(okc, Eq(cnt, n)), m.cmp(token.LEQ, m.ix(0), cnt, ixT), m.cmp(token.LEQ, cnt, n, ixT)))
	return Value{K: KTuple, Fields: []Value{
		{K: KScalar, T: types.Typ[types.Int], X: cnt},
		{K: KIface, X: Ite(okc, nilRef, errRef)},
	}}
}

func (x *Exec) ioWrite(fr *Frame, st *State, w Value, b Value, pos token.Pos) Value {
	m := x.m()
	ixT := IntTy{64, true}
	if w.K != KIface || b.K != KSlice {
		unsupported("Write on unexpected values")
	}
	out := x.ioComp(st, "Io.out", true)
	ol := Select(x.ioComp(st, "Io.outlen", false), w.X)
	x.vc.assumeOnce(m.cmp(token.LEQ, m.ix(0), ol, ixT))
	okc := x.vc.fresh("wrok", SBool) // a writer may fail at any time
	// ... unless the contract says it cannot (infallible(w): e.g. a hash.Hash, whose Write never returns an error)
	x.vc.assume(Implies(x.infallible(w.X), okc))
	n := b.Len
	// on success: out' = out ++ b
	na := x.vc.fresh("wr", SArr(m.ixSort(), m.intSort(IntTy{8, false})))
	k := Sym("k!w", m.ixSort())
	oldOut := Select(out, w.X)
	inNew := And(m.cmp(token.LEQ, ol, k, ixT), m.cmp(token.LSS, k, x.ixAdd(ol, n), ixT))
	sl := x.srcElemLeaves(st, b, x.ixSub(k, ol))
	if nl, ok := litValue(n); ok && nl.IsInt64() && nl.Int64() <= 40 {
		// a short write of known length: on success the stream is the old one with the bytes stored one by one
		// (quantifier-free); on failure only the prefix is known
		written := oldOut
		for j := int64(0); j < nl.Int64(); j++ {
			written = Store(written, x.ixAdd(ol, m.ix(j)), x.srcElemLeaves(st, b, m.ix(j))[0])
		}
		x.vc.assume(Implies(okc, Eq(na, written)))
		x.vc.assume(Implies(Not(okc), Forall([][2]string{{"k!w", m.ixSort()}},
			Implies(m.cmp(token.LSS, k, ol, ixT), Eq(Select(na, k), Select(oldOut, k))), Select(na, k))))
	} else {
		x.vc.assume(Forall([][2]string{{"k!w", m.ixSort()}}, And(
			Implies(m.cmp(token.LSS, k, ol, ixT), Eq(Select(na, k), Select(oldOut, k))),
			Implies(And(okc, inNew), Eq(Select(na, k), sl[0]))), Select(na, k)))
	}
	nl := x.vc.fresh("wrlen", m.ixSort())
	x.vc.assume(And(Implies(okc, Eq(nl, x.ixAdd(ol, n))), m.cmp(token.LEQ, ol, nl, ixT), m.cmp(token.LEQ, nl, x.ixAdd(ol, n), ixT)))
	st.H["Io.out"] = Store(out, w.X, na)
	st.H["Io.outlen"] = Store(x.ioComp(st, "Io.outlen", false), w.X, nl)
	errRef := x.newRef(st, fmt.Sprintf("f%d.wrerr", fr.id))
	cnt := x.vc.fresh("wrn", m.ixSort())
	x.vc.assume(And(Implies(okc, Eq(cnt, n)), m.cmp(token.LEQ, m.ix(0), cnt, ixT), m.cmp(token.LEQ, cnt, n, ixT)))
	return Value{K: KTuple, Fields: []Value{
		{K: KScalar, T: types.Typ[types.Int], X: cnt},
		{K: KIface, X: Ite(okc, nilRef, errRef)},
	}}
}

func init() {
	stubs["io.ReadFull"] = func(x *Exec, fr *Frame, st *State, callee *ssa.Function, args []Value, pos token.Pos) Value {
		return x.ioReadFull(fr, st, args[0], args[1], pos)
	}
	stubEffectTable["io.ReadFull"] = func() ModSet {
		ms := newModSet()
		ms.prefixes["Io.pos"] = true
		ms.prefixes["Mem.u8"] = true
		ms.allocs = true
		return ms
	}
}

// infallible(w): specification-only property of a writer value: its Write never fails.
func (x *Exec) infallible(w *Term) *Term {
	q := "infallible"
	if _, ok := x.vc.declared[q]; !ok {
		x.vc.declared[q] = SBool
		x.vc.items = append(x.vc.items, Item{Kind: "declfun", Name: q, Raw: "(declare-fun infallible (Int) Bool)"})
	}
	return App(q, SBool, w)
}

// ioBuiltin evaluates rpos/ravail/rbyte/wlen/wbyte in contracts.
func (c *CEnv) ioBuiltin(name string, e *CE) (Value, bool) {
	m := c.mode
	switch name {
	case "infallible":
		a := c.eval(e.Args[0])
		if a.K != KIface {
			c.fail("infallible() needs an io.Writer value")
		}
		return Value{K: KScalar, T: types.Typ[types.Bool], X: c.x.infallible(a.X)}, true
	case "rpos", "ravail", "wlen":
		a := c.eval(e.Args[0])
		if a.K != KIface {
			c.fail("%s() needs an io.Reader / io.Writer value", name)
		}
		comp := map[string]string{"rpos": "Io.pos", "ravail": "Io.avail", "wlen": "Io.outlen"}[name]
		return Value{K: KScalar, T: types.Typ[types.Int], X: Select(c.x.ioComp(c.heap(), comp, false), a.X)}, true
	case "rbyte", "wbyte":
		a := c.eval(e.Args[0])
		if a.K != KIface {
			c.fail("%s() needs an io.Reader / io.Writer value", name)
		}
		ixHint := Value{K: KScalar, T: types.Typ[types.Int], X: m.ix(0)}
		k := c.evalH(e.Args[1], &ixHint)
		comp := "Io.in"
		if name == "wbyte" {
			comp = "Io.out"
		}
		v := Value{K: KScalar, T: types.Typ[types.Uint8], X: Select(Select(c.x.ioComp(c.heap(), comp, true), a.X), k.X)}
		c.x.assumeTypeInv(c.heap(), v)
		return v, true
	}
	return Value{}, false
}
