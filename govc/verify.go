package main

// Per-function and per-lemma verification condition generation.

import (
	"fmt"
	"go/token"
	"go/types"
	"strings"

	"golang.org/x/tools/go/ssa"
)

func newVC(u *Universe, pi *PkgInfo, mode Mode, name string) *VC {
	specIntMath = mode == ModeInt
	return &VC{mode: mode, declared: map[string]string{}, counters: map[string]int{}, assumed: map[string]bool{},
		fnName: name, uni: u, pkg: pi, specsUsed: map[string]bool{}}
}

func modeOf(s string) Mode {
	if s == "bv" {
		return ModeBV
	}
	return ModeInt
}

func shortPkg(path string) string {
	p := strings.TrimPrefix(path, "github.com/btcsuite/btcd/")
	p = strings.ReplaceAll(p, "/v2", "")
	return p
}

type VerifyResult struct {
	VC  *VC
	Err error // outside subset / engine error
	Fn  *ssa.Function
}

// genFunction builds the obligations of one function under contract.
func genFunction(u *Universe, pi *PkgInfo, fc *FuncContract) (res *VerifyResult) {
	res = &VerifyResult{}
	fn := u.findFunc(pi, fc)
	if fn == nil {
		res.Err = fmt.Errorf("function %s not found in %s", fc.Name, pi.Path)
		return
	}
	res.Fn = fn
	name := shortPkg(pi.Path) + "." + contractKey(fn)
	if i := strings.Index(fc.Name, "@"); i >= 0 {
		name += fc.Name[i:] // scenario variant of the function's contract
	}
	defer func() {
		if r := recover(); r != nil {
			if ee, ok := r.(engineErr); ok {
				res.Err = fmt.Errorf("%s: outside subset: %s", name, ee.msg)
				return
			}
			panic(r)
		}
	}()
	// pass 1: discover heap components
	vc1 := newVC(u, pi, modeOf(fc.Mode), name)
	comps := runFunction(vc1, u, pi, fc, fn, nil)
	// pass 2
	vc := newVC(u, pi, modeOf(fc.Mode), name)
	runFunction(vc, u, pi, fc, fn, comps)
	res.VC = vc
	return
}

func runFunction(vc *VC, u *Universe, pi *PkgInfo, fc *FuncContract, fn *ssa.Function, comps map[string]string) map[string]string {
	x := &Exec{vc: vc}
	vc.target = fn
	m := vc.mode
	st := State{H: map[string]*Term{}, Reach: TTrue}
	for _, k := range sortedKeys(comps) {
		if k == "$alloc" {
			continue
		}
		st.H[k] = vc.decl("H0."+k, comps[k])
	}
	x.alloc(&st)
	fr := &Frame{fn: fn, env: map[ssa.Value]Value{}, id: 0, fc: fc, pkg: pi, loopHead: map[*LoopInfo]State{}, loopVariant: map[*LoopInfo]*Term{}}
	fr.top = fr
	fr.nopanic = fc.NoPanic
	x.top = fr
	for _, p := range fn.Params {
		v := x.havocParam(&st, p.Type(), "p."+p.Name())
		fr.env[p] = v
		fr.params = append(fr.params, v)
	}
	var cells []*Term
	for _, fv := range fn.FreeVars {
		v := x.havocParam(&st, fv.Type(), "fv."+fv.Name())
		fr.env[fv] = v
		// go/ssa captures variables by reference: a free variable is the address of the enclosing function's
		// variable cell, which is never nil and differs from every other captured cell
		if v.K == KPtr && fn.Parent() != nil && isCapturedCell(fn.Parent(), fv) {
			vc.assume(Not(Eq(v.Loc.Root, nilRef)))
			for _, c := range cells {
				vc.assume(Not(Eq(v.Loc.Root, c)))
			}
			cells = append(cells, v.Loc.Root)
		}
	}
	fr.ghosts = map[string]Value{}
	for _, g := range fc.GhostVars {
		s := vc.decl("g."+g.Name, m.specSort(g.Type))
		t, _ := basicByName(g.Type)
		if t != nil {
			if it, ok := intTyOf(t); ok {
				vc.assume(m.inRange(s, it))
			}
		}
		fr.ghosts[g.Name] = Value{K: KScalar, T: t, X: s}
		vc.inputSyms = append(vc.inputSyms, InputSym{Param: "ghost " + g.Name, Sym: s.Op})
	}
	fr.entry = st.clone()
	if fc.Where != nil {
		fr.whereSym = vc.decl("g.where", SBool)
	}
	// receiver non-nil
	if fn.Signature.Recv() != nil && len(fr.params) > 0 && fr.params[0].K == KPtr {
		vc.assume(Not(Eq(fr.params[0].Loc.Root, nilRef)))
	}
	env := x.entryEnv(fr, &st)
	for _, rq := range fc.Requires {
		vc.assume(env.evalBool(rq.Expr))
	}
	for _, us := range fc.Uses {
		vc.assume(x.lemmaInstance(env, us))
	}
	isInit := fn.Name() == "init" && fn.Synthetic != ""
	if isInit {
		// the runtime runs a package initialiser exactly once: its guard is false on entry
		if g := pi.SSA.Var("init$guard"); g != nil {
			p := x.get(fr, &st, g)
			x.storeLoc(&st, p.Loc, Value{T: types.Typ[types.Bool], K: KScalar, X: TFalse})
		}
		// package-level variables start zeroed
		for _, name := range sortedKeys(pi.SSA.Members) {
			g, ok := pi.SSA.Members[name].(*ssa.Global)
			if !ok || name == "init$guard" {
				continue
			}
			func() {
				defer func() {
					if r := recover(); r != nil {
						if _, ok := r.(engineErr); !ok {
							panic(r)
						}
					}
				}()
				p := x.get(fr, &st, g)
				x.zeroStore(&st, p.Loc)
			}()
		}
	}
	if !isInit && pi.Contracts != nil {
		// a global invariant is supplied only to functions that can reach one of the globals it
		// talks about (directly or through same-package callees); elsewhere it is dead weight
		reach := reachableGlobals(fn, 4)
		for _, gi := range pi.Contracts.GlobalInvs {
			ids := map[string]bool{}
			ceIdents(gi.Expr, ids)
			relevant, mentions := false, false
			for id := range ids {
				if _, ok := pi.SSA.Members[id].(*ssa.Global); ok {
					mentions = true
					if reach[id] {
						relevant = true
					}
				}
			}
			if relevant || !mentions {
				vc.assume(env.evalBool(gi.Expr))
			}
		}
	}
	if fc.Where != nil {
		// g.where stands for any hypothesis at least as strong as the where-clause
		wenv := x.entryEnv(fr, &st)
		vc.assume(Implies(fr.whereSym, wenv.evalBool(fc.Where.Expr)))
	}
	nPre := len(vc.items)
	// cover: preconditions satisfiable
	cov := &Obl{Name: vc.fnName + "#cover.pre", Kind: "cover", Goal: TFalse, N: nPre, Desc: "preconditions and type invariants are satisfiable", Fn: vc.fnName, VC: vc, Expect: "sat", Pos: x.posOf(fn, fn.Pos())}
	vc.obls = append(vc.obls, cov)

	x.inlineStack = []*ssa.Function{fn}
	x.execBody(fr, st)
	// every declared call-site assertion must have been evaluated at least once: in partial mode a
	// path is abandoned where the engine cannot go on, and an assertion whose call (or whose names)
	// can no longer be resolved would otherwise vanish silently
	for _, cs := range fc.CallSites {
		if cs.IsUse {
			continue
		}
		tag := cs.Tag
		if tag == "" {
			tag = cs.Callee
		}
		found := false
		for _, o := range vc.obls {
			if strings.HasPrefix(o.Name, vc.fnName+"#callsite."+tag+".") || o.Name == vc.fnName+"#callsite."+tag+".reach" {
				found = true
			}
		}
		if !found && cs.IsNever {
			o := vc.oblige("callsite."+tag, TTrue, x.posOf(fn, fn.Pos()), fmt.Sprintf("the function never calls %s (no such call in its body)", cs.Callee))
			o.Clause = cs.Clause.Src
			continue
		}
		if !found {
			o := vc.oblige("callsite."+tag, TFalse, x.posOf(fn, fn.Pos()), fmt.Sprintf("call-site assertion [%s] at %s was never evaluated: the call is gone, unreachable for the engine, or the assertion no longer resolves there: %s", tag, cs.Callee, cs.Clause.Src))
			o.Clause = cs.Clause.Src
		}
	}

	if len(fr.rets) > 0 {
		var resT types.Type = fn.Signature.Results()
		if fn.Signature.Results().Len() == 1 {
			resT = fn.Signature.Results().At(0).Type()
		}
		res, fin := x.mergeRets("final", fr.rets, resT)
		post := &CEnv{x: x, fr: fr, st: &fin, old: &fr.entry, pkg: pi, mode: m, vars: env.vars, hasResult: true, result: res, sig: fn.Signature, goal: true, ghostsOK: true}
		// cover: some return reachable
		vc.obls = append(vc.obls, &Obl{Name: vc.fnName + "#cover.ret", Kind: "cover", Goal: Not(fin.Reach), N: len(vc.items), Desc: "a normal return is reachable", Fn: vc.fnName, VC: vc, Expect: "sat", Pos: x.posOf(fn, fn.Pos())})
		splitsFor := func(tag string) []*Term {
			var splits []*Term
			for _, sh := range fc.Splits {
				if sh.Tag != "" && sh.Tag != tag {
					continue
				}
				e := env.eval(sh.Expr).X
				for v := sh.Lo; v <= sh.Hi; v++ {
					splits = append(splits, Eq(e, m.lit(bigInt(v), IntTy{64, true})))
				}
			}
			return splits
		}
		for k, en := range fc.Ensures {
			if en.Assumed {
				continue
			}
			g := post.evalBool(en.Expr)
			o := vc.oblige("post", Implies(fin.Reach, g), x.posOf(fn, fn.Pos()), fmt.Sprintf("postcondition %d: %s", k+1, en.Src))
			o.Clause = en.Src
			o.ClauseCE = en.Expr
			o.Slow = en.Slow
			o.Splits = splitsFor(en.Tag)
			// vacuity guard: the antecedent of "A ==> B" must be reachable at a return
			if en.Expr.Kind == "bin" && en.Expr.Name == "==>" {
				post.goal = false
				ante := post.evalBool(en.Expr.Args[0])
				post.goal = true
				tag := en.Tag
				if tag == "" {
					tag = fmt.Sprint(k + 1)
				}
				vc.obls = append(vc.obls, &Obl{Name: vc.fnName + "#cover.post." + tag, Kind: "cover", Goal: Not(And(fin.Reach, ante)), N: len(vc.items),
					Desc: "the antecedent of postcondition " + tag + " is reachable (otherwise the clause is vacuous)", Fn: vc.fnName, VC: vc, Expect: "sat", Pos: x.posOf(fn, fn.Pos()), Slow: en.Slow})
			}
			if en.Tag != "" {
				o.Name = vc.fnName + "#post." + en.Tag
			}
		}
		if isInit && pi.Contracts != nil {
			for k, gi := range pi.Contracts.GlobalInvs {
				g := post.evalBool(gi.Expr)
				o := vc.oblige("globalinv", Implies(fin.Reach, g), x.posOf(fn, fn.Pos()), fmt.Sprintf("package initialisation establishes global invariant %d: %s", k+1, gi.Src))
				o.Clause = gi.Src
			}
			for _, bad := range globalsNotFinal(pi) {
				o := vc.oblige("final", TFalse, x.posOf(fn, fn.Pos()), bad)
				o.Clause = "effectively-final global"
			}
			vc.oblige("final", TTrue, x.posOf(fn, fn.Pos()), "mechanical scan: globals named in globalinv are never written or leaked outside init")
		}
		if !fc.ModAll && !isInit {
			x.frameObligations(fr, env, &fin)
		}
	} else if len(fc.Ensures) > 0 {
		vc.notes = append(vc.notes, "function has no normal return")
	}
	out := map[string]string{}
	for k, t := range st.H {
		out[k] = t.S
	}
	for _, it := range vc.items {
		if it.Kind == "decl" && strings.HasPrefix(it.Name, "H0.") || it.Kind == "decl" && strings.HasPrefix(it.Name, "|H0.") {
			n := strings.Trim(it.Name, "|")
			out[strings.TrimPrefix(n, "H0.")] = it.Sort
		}
	}
	for _, o := range vc.obls {
		o.FC = fc
		for _, sub := range fc.SlowObls {
			if strings.Contains(o.Name, sub) {
				o.Slow = true
			}
		}
	}
	if fc.NoPre {
		// the function is checked only through its call-site assertions and postconditions; the
		// preconditions of its callees (mostly non-nil facts lost to havocked calls) are left undecided
		var keep []*Obl
		n := 0
		for _, o := range vc.obls {
			if strings.HasPrefix(o.Kind, "pre@") || o.Kind == "pre" {
				n++
				continue
			}
			keep = append(keep, o)
		}
		vc.obls = keep
		x.note(fmt.Sprintf("abstracted (not claimed): %d callee preconditions are left undecided in this function (nopre)", n))
	}
	if len(fc.NotClaimed) > 0 {
		// obligations the contract explicitly leaves undecided: generated, not checked, reported as such
		var keep []*Obl
		for _, o := range vc.obls {
			drop := false
			for _, nc := range fc.NotClaimed {
				if (o.Kind == nc[0] || strings.HasPrefix(o.Kind, nc[0]+"@")) && strings.Contains(sourceLine(o.Pos.String()), nc[1]) {
					drop = true
					x.note(fmt.Sprintf("abstracted (not claimed): obligation %s (%s, %s) is left undecided: %s", o.Name, o.Desc, o.Pos, nc[2]))
				}
			}
			if !drop {
				keep = append(keep, o)
			}
		}
		vc.obls = keep
	}
	if fc.Tier == "thorough" {
		for _, o := range vc.obls {
			o.Slow = true
		}
	}
	return out
}

// havocParam creates the symbolic input for a parameter and registers replay symbols.
func (x *Exec) havocParam(st *State, t types.Type, name string) Value {
	m := x.m()
	if kindOf(t) == KArray {
		a := t.Underlying().(*types.Array)
		if k := kindOf(a.Elem()); !(k == KScalar || k == KPtr || k == KMap || k == KIface) {
			unsupported("array parameter of composites %s", t)
		}
	}
	var ls []*Term
	for _, l := range m.flatten(t) {
		s := x.vc.decl(name+l.Suffix, l.Sort)
		ls = append(ls, s)
		isBytes := false
		if sl, ok := t.Underlying().(*types.Slice); ok {
			if b, ok := sl.Elem().Underlying().(*types.Basic); ok && b.Kind() == types.Uint8 {
				isBytes = true
			}
		}
		isBig := false
		if pt, ok := t.Underlying().(*types.Pointer); ok && typeKey(pt.Elem()) == "big.Int" {
			isBig = true
		}
		x.vc.inputSyms = append(x.vc.inputSyms, InputSym{Param: name, Path: l.Suffix, Sym: s.Op, ByteSlice: isBytes, BigInt: isBig})
	}
	v, _ := m.fromLeaves(t, ls)
	x.assumeTypeInv(st, v)
	return v
}

// reachableGlobals: names of package-level variables of fn's package referenced by fn or by static
// callees in the same package, to the given call depth.
func reachableGlobals(fn *ssa.Function, depth int) map[string]bool {
	out := map[string]bool{}
	seen := map[*ssa.Function]bool{}
	var walk func(f *ssa.Function, d int)
	walk = func(f *ssa.Function, d int) {
		if f == nil || seen[f] || d < 0 {
			return
		}
		seen[f] = true
		for _, b := range f.Blocks {
			for _, ins := range b.Instrs {
				for _, op := range ins.Operands(nil) {
					if op == nil || *op == nil {
						continue
					}
					switch v := (*op).(type) {
					case *ssa.Global:
						if v.Pkg == fn.Pkg {
							out[v.Name()] = true
						}
					case *ssa.Function:
						if v.Pkg == fn.Pkg {
							walk(v, d-1)
						}
					case *ssa.MakeClosure:
						if cf, ok := v.Fn.(*ssa.Function); ok {
							walk(cf, d-1)
						}
					}
				}
			}
		}
		for _, an := range f.AnonFuncs {
			walk(an, d-1)
		}
	}
	walk(fn, depth)
	return out
}

// frameObligations: everything not named in modifies is unchanged (for objects that existed at entry).
func (x *Exec) frameObligations(fr *Frame, env *CEnv, fin *State) {
	for _, fg := range x.frameGoals(fr, env, fin) {
		o := x.vc.oblige("frame", Implies(fin.Reach, fg.goal), x.posOf(fr.fn, fr.fn.Pos()), "only the declared frame is modified: component "+fg.comp)
		o.Clause = "modifies (component " + fg.comp + ")"
	}
}

type frameGoal struct {
	comp string
	goal *Term
}

// frameGoals: per heap component that differs from its entry value in state fin, the statement that
// every location outside the declared frame (of objects that existed at entry) is unchanged.
func (x *Exec) frameGoals(fr *Frame, env *CEnv, fin *State) (out []frameGoal) {
	m := x.m()
	vc := x.vc
	fc := fr.fc
	ixT := IntTy{64, true}
	type allowed struct {
		root *Term
		idx  []*Term
		rng  *[2]*Term // element range [lo,hi) for slices
		elems []*Term
	}
	allow := map[string][]allowed{}
	mapsFree := false
	var allPrefixes []string
	for _, me := range fc.Modifies {
		star := false
		e := me
		if e.Kind == "id" && e.Name == "maps" {
			mapsFree = true
			continue
		}
		if e.Kind == "call" && e.Name == "all" && len(e.Args) == 1 {
			allPrefixes = append(allPrefixes, e.Args[0].String())
			continue
		}
		if e.Kind == "call" && e.Name == "stream" && len(e.Args) == 1 {
			saved := env.st
			env.st = &fr.entry
			w := env.eval(e.Args[0])
			env.st = saved
			for _, cn := range []string{"Io.out", "Io.outlen", "Io.pos"} {
				allow[cn] = append(allow[cn], allowed{root: w.X})
			}
			continue
		}
		if e.Kind == "field" && e.Name == "*" {
			star = true
			e = e.Args[0]
		}
		saved := env.st
		env.st = &fr.entry
		v := env.eval(e)
		env.st = saved
		switch {
		case v.K == KSlice && (e.Kind != "field" || star):
			for _, lf := range m.flatten(v.Loc.T) {
				n := v.Loc.Prefix + lf.Suffix
				allow[n] = append(allow[n], allowed{root: v.Loc.Root, elems: v.Loc.Elems, rng: &[2]*Term{v.Off, x.ixAdd(v.Off, v.Len)}})
			}
		case v.K == KPtr && (star || e.Kind != "field"):
			for _, lf := range m.flatten(v.Loc.T) {
				n := v.Loc.Prefix + lf.Suffix
				allow[n] = append(allow[n], allowed{root: v.Loc.Root, elems: v.Loc.Elems})
			}
		default:
			loc := env.evalLoc(e, &fr.entry)
			for _, lf := range m.flatten(loc.T) {
				n := loc.Prefix + lf.Suffix
				allow[n] = append(allow[n], allowed{root: loc.Root, elems: loc.Elems})
			}
		}
	}
	a0 := x.alloc(&fr.entry)
	for _, k := range sortedKeys(fin.H) {
		if k == "$alloc" || mapsFree && strings.HasPrefix(k, "Map.") {
			continue
		}
		if strings.HasPrefix(k, "Lock.") {
			// ghost lock state is not part of a function's frame (see lock.balanced)
			continue
		}
		skipAll := false
		for _, ap := range allPrefixes {
			if k == ap || strings.HasPrefix(k, ap+".") {
				skipAll = true
			}
		}
		if skipAll {
			continue
		}
		now := fin.H[k]
		was, ok := fr.entry.H[k]
		if !ok {
			was = vc.decl("H0."+k, now.S)
		}
		if termEqual(now, was) {
			continue
		}
		r := Sym("r!f", refSort)
		var excl []*Term
		var goal *Term
		simple := true
		for _, al := range allow[k] {
			if al.rng != nil || len(al.elems) > 0 {
				simple = false
			}
		}
		if simple {
			for _, al := range allow[k] {
				excl = append(excl, Not(Eq(r, al.root)))
			}
			goal = Forall([][2]string{{"r!f", refSort}}, Implies(And(append(excl, iGt(r, IntLit(0)), iLt(r, a0))...), Eq(Select(now, r), Select(was, r))))
		} else {
			// element-level frame for slice ranges (one index level)
			j := Sym("j!f", m.ixSort())
			var ex []*Term
			for _, al := range allow[k] {
				if al.rng != nil && len(al.elems) == 0 {
					ex = append(ex, Not(And(Eq(r, al.root), m.cmp(token.LEQ, al.rng[0], j, ixT), m.cmp(token.LSS, j, al.rng[1], ixT))))
				} else {
					ex = append(ex, Not(Eq(r, al.root)))
				}
			}
			_, inner, _ := arrSorts(now.S)
			if _, _, isArr := arrSorts(inner); !isArr {
				continue
			}
			goal = Forall([][2]string{{"r!f", refSort}, {"j!f", m.ixSort()}}, Implies(And(append(ex, iGt(r, IntLit(0)), iLt(r, a0))...), Eq(Select(Select(now, r), j), Select(Select(was, r), j))))
		}
		out = append(out, frameGoal{k, goal})
	}
	return out
}

func (x *Exec) lemmaInstance(env *CEnv, us *Clause) *Term {
	e := us.Expr
	if e.Kind != "call" {
		panic(engineErr{"use: expected lemma(args)"})
	}
	var lm *Lemma
	for _, p := range x.vc.uni.pkgs {
		if p.Contracts != nil {
			if l, ok := p.Contracts.LemmaByName[e.Name]; ok {
				lm = l
			}
		}
	}
	if lm == nil {
		panic(engineErr{"use: unknown lemma " + e.Name})
	}
	if len(lm.Params) != len(e.Args) {
		panic(engineErr{"use: wrong number of arguments for lemma " + e.Name})
	}
	sub := &CEnv{x: x, fr: env.fr, st: env.st, old: env.old, pkg: env.pkg, mode: env.mode, vars: map[string]Value{}, lookup: env.lookup, bound: env.bound}
	inst := &CEnv{x: x, fr: env.fr, st: env.st, pkg: env.pkg, mode: env.mode, vars: map[string]Value{}}
	for k, p := range lm.Params {
		var h *Value
		if t, ok := basicByName(p.Type); ok {
			if it, ok := intTyOf(t); ok {
				h = &Value{K: KScalar, T: t, X: env.mode.lit(bigInt(0), it)}
			}
		}
		_ = sub
		v := env.evalH(e.Args[k], h)
		t, _ := basicByName(p.Type)
		if v.K == KScalar {
			v.T = t
		}
		inst.vars[p.Name] = v
	}
	var req, ens []*Term
	inst.goal = true
	for _, r := range lm.Requires {
		req = append(req, inst.evalBool(r.Expr))
	}
	inst.goal = false
	for _, r := range lm.Ensures {
		ens = append(ens, inst.evalBool(r.Expr))
	}
	return Implies(And(req...), And(ens...))
}

// genLemma builds the obligations of a lemma over spec functions.
func genLemma(u *Universe, pi *PkgInfo, lm *Lemma) (res *VerifyResult) {
	res = &VerifyResult{}
	name := shortPkg(pi.Path) + ".lemma." + lm.Name
	defer func() {
		if r := recover(); r != nil {
			if ee, ok := r.(engineErr); ok {
				res.Err = fmt.Errorf("%s: %s", name, ee.msg)
				return
			}
			panic(r)
		}
	}()
	vc := newVC(u, pi, modeOf(lm.Mode), name)
	x := &Exec{vc: vc}
	m := vc.mode
	st := State{H: map[string]*Term{}, Reach: TTrue}
	fr := &Frame{id: 0, pkg: pi}
	fr.top = fr
	env := &CEnv{x: x, fr: fr, st: &st, pkg: pi, mode: m, vars: map[string]Value{}}
	var paramSyms []*Term
	for _, p := range lm.Params {
		s := vc.decl("l."+p.Name, m.specSort(p.Type))
		t, _ := basicByName(p.Type)
		v := specParamValue(pi, m, p, s)
		if t != nil {
			if it, ok := intTyOf(t); ok {
				vc.assume(m.inRange(s, it))
			}
		}
		if v.K == KPtr {
			x.assumeTypeInv(&st, v)
		}
		env.vars[p.Name] = v
		paramSyms = append(paramSyms, s)
		vc.inputSyms = append(vc.inputSyms, InputSym{Param: p.Name, Sym: s.Op})
	}
	for _, r := range lm.Requires {
		vc.assume(env.evalBool(r.Expr))
	}
	for _, us := range lm.Uses {
		vc.assume(x.lemmaInstance(env, us))
	}
	// induction hypotheses: explicit instances
	if lm.Induct != nil {
		meas := env.eval(lm.Induct).X
		for k, ih := range lm.IH {
			if len(ih) != len(lm.Params) {
				panic(engineErr{"ih: wrong number of arguments"})
			}
			inst := &CEnv{x: x, fr: fr, st: &st, pkg: pi, mode: m, vars: map[string]Value{}}
			for j, p := range lm.Params {
				var h *Value
				t, _ := basicByName(p.Type)
				if t != nil {
					if it, ok := intTyOf(t); ok {
						h = &Value{K: KScalar, T: t, X: m.lit(bigInt(0), it)}
					}
				}
				if pv := specParamValue(pi, m, p, nilRef); pv.K == KPtr {
					h = &pv
				}
				v := env.evalH(ih[j], h)
				if v.K == KScalar {
					v.T = t
				}
				inst.vars[p.Name] = v
			}
			var req, ens []*Term
			var rng []*Term
			for j, p := range lm.Params {
				if t, ok := basicByName(p.Type); ok {
					if it, ok := intTyOf(t); ok {
						rng = append(rng, m.inRange(inst.vars[lm.Params[j].Name].X, it))
					}
				}
			}
			inst.goal = true
			for _, r := range lm.Requires {
				req = append(req, inst.evalBool(r.Expr))
			}
			inst.goal = false
			for _, r := range lm.Ensures {
				ens = append(ens, inst.evalBool(r.Expr))
			}
			m2 := inst.eval(lm.Induct).X
			var smaller *Term
			if m == ModeBV {
				smaller = App("bvult", SBool, m2, meas)
			} else {
				smaller = And(iLe(IntLit(0), m2), iLt(m2, meas))
			}
			_ = k
			// the hypothesis is available only for strictly smaller, well-typed instances
			vc.assume(Implies(And(append(rng, append(req, smaller)...)...), And(ens...)))
		}
	}
	var splits []*Term
	for _, sh := range lm.Splits {
		e := env.eval(sh.Expr).X
		for v := sh.Lo; v <= sh.Hi; v++ {
			splits = append(splits, Eq(e, m.lit(bigInt(v), IntTy{64, true})))
		}
	}
	if lm.Axiom {
		res.VC = vc
		return
	}
	vc.obls = append(vc.obls, &Obl{Name: name + "#cover.pre", Kind: "cover", Goal: TFalse, N: len(vc.items), Desc: "lemma hypotheses are satisfiable", Fn: name, VC: vc, Expect: "sat"})
	env.goal = true
	for k, en := range lm.Ensures {
		g := env.evalBool(en.Expr)
		o := vc.oblige("lemma", g, token.Position{Filename: pi.Contracts.File, Line: lm.Line}, fmt.Sprintf("lemma %s conclusion %d: %s", lm.Name, k+1, en.Src))
		o.Clause = en.Src
		o.Splits = splits
		o.Slow = en.Slow || lm.Tier == "thorough"
	}
	res.VC = vc
	return
}
