package main

// sort.Sort(data) on an interface value built in the function under proof from a slice of scalars: the call
// may permute exactly the elements of that slice (its range in the backing array); nothing else changes.
// (Sortedness and the permutation property of the standard library's sort are not modelled.)

import (
	"go/token"

	"golang.org/x/tools/go/ssa"
)

func init() {
	stubs["sort.Sort"] = func(x *Exec, fr *Frame, st *State, callee *ssa.Function, args []Value, pos token.Pos) Value {
		a := args[0]
		if a.K != KIface || a.Dyn == nil || a.Dyn.K != KSlice {
			x.note("abstracted (call havocked): sort.Sort on a value of unknown shape")
			return x.havocCall(fr, st, "sort.Sort", callee.Signature.Results(), true)
		}
		s := *a.Dyn
		m := x.m()
		ixT := IntTy{64, true}
		lfs := m.flatten(s.Loc.T)
		if len(lfs) != 1 || len(s.Loc.Elems) != 0 {
			return x.havocCall(fr, st, "sort.Sort", callee.Signature.Results(), true)
		}
		name := s.Loc.Prefix + lfs[0].Suffix
		c := x.comp(st, name, x.compSortFor(lfs[0].Sort, 1))
		oldArr := Select(c, s.Loc.Root)
		na := x.vc.fresh("sorted."+name, oldArr.S)
		k := Sym("k!s", m.ixSort())
		end := x.ixAdd(s.Off, s.Len)
		x.vc.assume(Forall([][2]string{{"k!s", m.ixSort()}}, Implies(Or(m.cmp(token.LSS, k, s.Off, ixT), m.cmp(token.GEQ, k, end, ixT)), Eq(Select(na, k), Select(oldArr, k))), Select(na, k)))
		st.H[name] = Store(c, s.Loc.Root, na)
		x.note("abstracted: sort.Sort permutes the elements of its slice argument only (sortedness not modelled)")
		return Value{K: KTuple}
	}
	stubEffectTable["sort.Sort"] = func() ModSet { ms := newModSet(); ms.prefixes["Mem."] = true; return ms }
}
