package main

// Per-instruction semantics.

import (
	"strings"
	"fmt"
	"go/token"
	"go/types"
	"math/big"

	"golang.org/x/tools/go/ssa"
)

func (x *Exec) setv(fr *Frame, ins ssa.Value, v Value) {
	v.T = ins.Type()
	fr.env[ins] = x.nameValue(fr, fmt.Sprintf("f%d.%s", fr.id, ins.Name()), v)
}

func (x *Exec) execInstr(fr *Frame, b *ssa.BasicBlock, ins ssa.Instruction, st *State) {
	fr.cur = ins
	m := x.m()
	ixT := IntTy{64, true}
	switch i := ins.(type) {
	case *ssa.DebugRef:
		return
	case *ssa.BinOp:
		x.setv(fr, i, x.binop(fr, st, i))
	case *ssa.UnOp:
		xv := x.get(fr, st, i.X)
		switch i.Op {
		case token.MUL: // load
			if xv.K != KPtr {
				unsupported("load through non-pointer value")
			}
			x.check(fr, st, "nil", Not(Eq(xv.Loc.Root, nilRef)), i.Pos(), "nil pointer dereference")
			x.setv(fr, i, x.loadLoc(st, xv.Loc))
			if g, ok := i.X.(*ssa.Global); ok {
				x.assumeGlobalInvsAt(fr, st, g)
			}
		case token.NOT:
			x.setv(fr, i, Value{K: KScalar, X: Not(xv.X)})
		case token.SUB:
			it, ok := intTyOf(i.Type())
			if !ok {
				x.setv(fr, i, x.havocValue(st, i.Type(), "fneg"))
				return
			}
			x.setv(fr, i, Value{K: KScalar, X: m.neg(xv.X, it)})
		case token.XOR:
			it, _ := intTyOf(i.Type())
			x.setv(fr, i, Value{K: KScalar, X: m.compl(xv.X, it)})
		case token.ARROW:
			unsupported("channel receive")
		default:
			unsupported("unary operator %s", i.Op)
		}
	case *ssa.Convert:
		x.setv(fr, i, x.convert(fr, st, i))
	case *ssa.ChangeType:
		v := x.get(fr, st, i.X)
		x.setv(fr, i, v)
	case *ssa.MultiConvert:
		unsupported("MultiConvert")
	case *ssa.Alloc:
		pt := i.Type().Underlying().(*types.Pointer).Elem()
		r := x.newRef(st, fmt.Sprintf("f%d.%s", fr.id, i.Name()))
		loc := &Loc{Prefix: canonPrefix(pt), Root: r, T: pt}
		x.zeroStore(st, loc)
		fr.env[i] = Value{T: i.Type(), K: KPtr, Loc: loc}
		if _, ok := pt.Underlying().(*types.Struct); ok {
			st.H[isTypeComp(pt)] = Store(x.isType(st, pt), r, TTrue)
		}
		if typeKey(pt) == "big.Int" && x.m() == ModeInt {
			x.bigSet(st, fr.env[i], IntLit(0)) // new(big.Int) is zero
		}
	case *ssa.Store:
		a := x.get(fr, st, i.Addr)
		v := x.get(fr, st, i.Val)
		if a.K != KPtr {
			unsupported("store through non-pointer")
		}
		x.check(fr, st, "nil", Not(Eq(a.Loc.Root, nilRef)), i.Pos(), "nil pointer dereference (store)")
		x.storeLoc(st, a.Loc, v)
	case *ssa.FieldAddr:
		p := x.get(fr, st, i.X)
		if p.K != KPtr {
			unsupported("FieldAddr on non-pointer")
		}
		x.check(fr, st, "nil", Not(Eq(p.Loc.Root, nilRef)), i.Pos(), "nil pointer dereference (field)")
		stT := p.Loc.T.Underlying().(*types.Struct)
		f := stT.Field(i.Field)
		fr.env[i] = Value{T: i.Type(), K: KPtr, Loc: &Loc{Prefix: p.Loc.Prefix + "." + f.Name(), Root: p.Loc.Root, Elems: p.Loc.Elems, T: f.Type()}}
	case *ssa.Field:
		s := x.get(fr, st, i.X)
		if s.K != KStruct {
			unsupported("Field on non-struct value")
		}
		fr.env[i] = s.Fields[i.Field]
	case *ssa.IndexAddr:
		base := x.get(fr, st, i.X)
		idx := x.ixValue(fr, st, i.Index)
		switch base.K {
		case KSlice:
			x.check(fr, st, "bounds", And(m.cmp(token.LEQ, m.ix(0), idx, ixT), m.cmp(token.LSS, idx, base.Len, ixT)), i.Pos(), "index out of range")
			pos := x.ixAdd(base.Off, idx)
			fr.env[i] = Value{T: i.Type(), K: KPtr, Loc: &Loc{Prefix: base.Loc.Prefix, Root: base.Loc.Root, Elems: appendTerm(base.Loc.Elems, pos), T: base.Loc.T}}
		case KPtr:
			at := base.Loc.T.Underlying().(*types.Array)
			x.check(fr, st, "nil", Not(Eq(base.Loc.Root, nilRef)), i.Pos(), "nil array pointer")
			x.check(fr, st, "bounds", And(m.cmp(token.LEQ, m.ix(0), idx, ixT), m.cmp(token.LSS, idx, m.ix(at.Len()), ixT)), i.Pos(), "array index out of range")
			pos := idx
			if base.Loc.Off != nil {
				pos = x.ixAdd(base.Loc.Off, idx)
			}
			fr.env[i] = Value{T: i.Type(), K: KPtr, Loc: &Loc{Prefix: base.Loc.Prefix, Root: base.Loc.Root, Elems: appendTerm(base.Loc.Elems, pos), T: at.Elem()}}
		default:
			unsupported("IndexAddr on %v", base.K)
		}
	case *ssa.Index:
		base := x.get(fr, st, i.X)
		idx := x.ixValue(fr, st, i.Index)
		switch base.K {
		case KArray:
			at := base.T.Underlying().(*types.Array)
			x.check(fr, st, "bounds", And(m.cmp(token.LEQ, m.ix(0), idx, ixT), m.cmp(token.LSS, idx, m.ix(at.Len()), ixT)), i.Pos(), "array index out of range")
			v, _ := m.fromLeaves(at.Elem(), []*Term{Select(base.X, idx)})
			x.assumeLoaded(st, v)
			x.setv(fr, i, v)
		case KString:
			x.check(fr, st, "bounds", And(m.cmp(token.LEQ, m.ix(0), idx, ixT), m.cmp(token.LSS, idx, base.Len, ixT)), i.Pos(), "string index out of range")
			v := Value{K: KScalar, T: i.Type(), X: Select(base.X, idx)}
			x.assumeTypeInv(st, v)
			x.setv(fr, i, v)
		default:
			unsupported("Index on %v", base.K)
		}
	case *ssa.Lookup:
		base := x.get(fr, st, i.X)
		if base.K == KString {
			idx := x.ixValue(fr, st, i.Index)
			x.check(fr, st, "bounds", And(m.cmp(token.LEQ, m.ix(0), idx, ixT), m.cmp(token.LSS, idx, base.Len, ixT)), i.Pos(), "string index out of range")
			v := Value{K: KScalar, T: i.Type(), X: Select(base.X, idx)}
			x.assumeTypeInv(st, v)
			x.setv(fr, i, v)
			return
		}
		x.mapLookup(fr, st, i, base)
	case *ssa.MapUpdate:
		x.mapUpdate(fr, st, i)
	case *ssa.MakeMap:
		x.makeMap(fr, st, i)
	case *ssa.Slice:
		x.setv(fr, i, x.sliceOp(fr, st, i))
	case *ssa.MakeSlice:
		ln := x.ixValue(fr, st, i.Len)
		cp := x.ixValue(fr, st, i.Cap)
		x.check(fr, st, "alloc", And(m.cmp(token.LEQ, m.ix(0), ln, ixT), m.cmp(token.LEQ, ln, cp, ixT)), i.Pos(), "makeslice: len out of range")
		x.allocBound(fr, st, cp, i.Type().Underlying().(*types.Slice).Elem(), i.Pos())
		e := i.Type().Underlying().(*types.Slice).Elem()
		r := x.newRef(st, fmt.Sprintf("f%d.%s", fr.id, i.Name()))
		loc := &Loc{Prefix: "Mem." + typeKey(e), Root: r, T: e}
		x.zeroArrayStore(st, loc)
		x.setv(fr, i, Value{K: KSlice, Loc: loc, Off: m.ix(0), Len: ln, Cap: cp})
	case *ssa.Extract:
		t := x.get(fr, st, i.Tuple)
		if t.K != KTuple {
			unsupported("Extract from non-tuple")
		}
		v := t.Fields[i.Index]
		fr.env[i] = v
	case *ssa.MakeInterface:
		v := x.get(fr, st, i.X)
		r := x.newRef(st, fmt.Sprintf("f%d.%s", fr.id, i.Name()))
		iv := Value{T: i.Type(), K: KIface, X: r, Dyn: &v}
		x.ifaceFacts(st, iv, v)
		if v.K == KPtr && v.isCanonical() {
			// the pointer an interface value wraps: payload(iface)
			x.vc.assume(Implies(st.Reach, Eq(x.payload(r), v.Loc.Root)))
		}
		fr.env[i] = iv
	case *ssa.ChangeInterface:
		v := x.get(fr, st, i.X)
		v.T = i.Type()
		fr.env[i] = v
	case *ssa.TypeAssert:
		v := x.get(fr, st, i.X)
		if v.Dyn != nil && types.Identical(v.Dyn.T, i.AssertedType) {
			if i.CommaOk {
				fr.env[i] = Value{T: i.Type(), K: KTuple, Fields: []Value{*v.Dyn, {K: KScalar, X: TTrue}}}
			} else {
				fr.env[i] = *v.Dyn
			}
			return
		}
		if !i.CommaOk {
			if fr.top.nopanic {
				x.vc.oblige("panic", Implies(st.Reach, TFalse), x.posOf(fr.fn, i.Pos()), "type assertion may panic (dynamic type unknown)")
			}
			x.setv(fr, i, x.havocValue(st, i.Type(), "assert"))
			return
		}
		hv := x.havocValue(st, i.Type(), "assert")
		if v.K == KIface && hv.K == KTuple && len(hv.Fields) == 2 {
			// v, ok := e.(T): ok is a FUNCTION of the interface value and T ("the dynamic type of e is
			// T"), the same one the contract builtin istype(e, T) denotes
			hv.Fields[1] = Value{K: KScalar, T: types.Typ[types.Bool], X: x.dynTypeIs(v.X, i.AssertedType)}
		}
		x.setv(fr, i, hv)
	case *ssa.MakeClosure:
		fn := i.Fn.(*ssa.Function)
		var binds []Value
		for _, bnd := range i.Bindings {
			binds = append(binds, x.get(fr, st, bnd))
		}
		r := x.newRef(st, fmt.Sprintf("f%d.%s", fr.id, i.Name()))
		fr.env[i] = Value{T: i.Type(), K: KFunc, Fn: fn, Binds: binds, X: r}
	case *ssa.Call:
		res := x.call(fr, st, i.Common(), i.Pos(), i)
		if i.Type() != nil {
			if tt, ok := i.Type().(*types.Tuple); ok && tt.Len() == 0 {
				return
			}
			x.setv(fr, i, res)
		}
	case *ssa.Defer:
		fr.defers = append(fr.defers, i)
		fr.deferState = append(fr.deferState, deferRec{ins: i, reach: st.Reach, block: b})
	case *ssa.RunDefers:
		for k := len(fr.deferState) - 1; k >= 0; k-- {
			d := fr.deferState[k]
			if !d.block.Dominates(b) {
				unsupported("conditional defer")
			}
			x.call(fr, st, d.ins.Common(), d.ins.Pos(), nil)
		}
	case *ssa.Return:
		var rs []Value
		for _, r := range i.Results {
			rs = append(rs, x.get(fr, st, r))
		}
		if fr == fr.top {
			x.returnAsserts(fr, st, i)
			x.lockBalanced(fr, st, i)
		}
		fr.rets = append(fr.rets, RetSite{St: st.clone(), Results: rs})
	case *ssa.Panic:
		if fr.top.nopanic {
			x.vc.oblige("panic", Implies(st.Reach, TFalse), x.posOf(fr.fn, i.Pos()), "explicit panic reachable")
		}
		// path ends
	case *ssa.If, *ssa.Jump:
		return
	case *ssa.Range:
		x.rangeInit(fr, st, i)
	case *ssa.Next:
		x.rangeNext(fr, st, i)
	case *ssa.SliceToArrayPointer:
		s := x.get(fr, st, i.X)
		at := i.Type().Underlying().(*types.Pointer).Elem().Underlying().(*types.Array)
		x.check(fr, st, "bounds", m.cmp(token.GEQ, s.Len, m.ix(at.Len()), ixT), i.Pos(), "slice too short for array conversion")
		l := &Loc{Prefix: s.Loc.Prefix, Root: s.Loc.Root, Elems: s.Loc.Elems, T: i.Type().Underlying().(*types.Pointer).Elem()}
		if !isZeroLit(s.Off) {
			l.Off = s.Off
		}
		fr.env[i] = Value{T: i.Type(), K: KPtr, Loc: l}
	case *ssa.MakeChan:
		// creating a channel communicates with nothing: the result is an opaque value and no modelled
		// storage changes; every operation ON a channel (send, receive, select, close, go) stays
		// outside the subset
		x.get(fr, st, i.Size)
		x.setv(fr, i, x.havocValue(st, i.Type(), "chan"))
	case *ssa.Go, *ssa.Send, *ssa.Select:
		unsupported("concurrency instruction %T", ins)
	default:
		unsupported("instruction %T", ins)
	}
}

func isZeroLit(t *Term) bool {
	v, ok := litValue(t)
	return ok && v.Sign() == 0
}

func appendTerm(a []*Term, t *Term) []*Term {
	out := make([]*Term, 0, len(a)+1)
	out = append(out, a...)
	return append(out, t)
}

func (x *Exec) ixAdd(a, b *Term) *Term {
	if x.m() == ModeInt {
		return iAdd(a, b)
	}
	return App("bvadd", a.S, a, b)
}
func (x *Exec) ixSub(a, b *Term) *Term {
	if x.m() == ModeInt {
		return iSub(a, b)
	}
	return App("bvsub", a.S, a, b)
}

// ixValue converts an index operand (any integer type) to the index sort.
func (x *Exec) ixValue(fr *Frame, st *State, v ssa.Value) *Term {
	if v == nil {
		return nil
	}
	val := x.get(fr, st, v)
	it, ok := intTyOf(v.Type())
	if !ok {
		unsupported("non-integer index")
	}
	if x.m() == ModeBV {
		if !it.Signed && it.W == 64 {
			// a uint64 index >= 2^63 is out of range for any slice; keep as is (compared signed it is negative)
			return val.X
		}
		return x.m().convert(val.X, it, IntTy{64, true})
	}
	return val.X // mathematical value; callers compare against [0,len)
}

func (x *Exec) zeroStore(st *State, loc *Loc) {
	m := x.m()
	if kindOf(loc.T) == KArray {
		at := loc.T.Underlying().(*types.Array)
		if k := kindOf(at.Elem()); !(k == KScalar || k == KPtr || k == KMap || k == KIface) {
			// array of composites: zero each leaf array
			for _, lf := range m.flatten(at.Elem()) {
				name := loc.Prefix + lf.Suffix
				c := x.comp(st, name, x.compSortFor(lf.Sort, len(loc.Elems)+1))
				zl := x.zeroLeaf(lf)
				st.H[name] = nestedStore(c, loc.indices(), x.constArray(SArr(m.ixSort(), lf.Sort), zl))
			}
			return
		}
	}
	x.storeLoc(st, loc, x.zeroValue(loc.T))
}

func (x *Exec) zeroLeaf(lf Leaf) *Term {
	switch {
	case lf.Sort == SBool:
		return TFalse
	case lf.Sort == SInt:
		return IntLit(0)
	}
	if w, ok := isBVSort(lf.Sort); ok {
		return BVLitBig(big.NewInt(0), w)
	}
	if ix, e, ok := arrSorts(lf.Sort); ok {
		_ = ix
		return x.constArray(lf.Sort, x.zeroLeaf(Leaf{Sort: e}))
	}
	return x.vc.decl("zero."+lf.Sort, lf.Sort)
}

// zeroArrayStore zero-fills a freshly made slice backing array.
func (x *Exec) zeroArrayStore(st *State, loc *Loc) {
	m := x.m()
	for _, lf := range m.flatten(loc.T) {
		name := loc.Prefix + lf.Suffix
		c := x.comp(st, name, x.compSortFor(lf.Sort, 1))
		st.H[name] = Store(c, loc.Root, x.constArray(SArr(m.ixSort(), lf.Sort), x.zeroLeaf(lf)))
	}
}

func (x *Exec) allocBound(fr *Frame, st *State, n *Term, elem types.Type, pos token.Pos) {
	if fr.top.fc == nil || fr.top.fc.AllocBound == nil {
		return
	}
	env := x.entryEnv(fr.top, st)
	bound := env.eval(fr.top.fc.AllocBound).X
	sz := int64(1)
	if s := x.vc.uni.sizes; s != nil {
		sz = s.Sizeof(elem)
	}
	var g *Term
	if x.m() == ModeInt {
		g = iLe(iMul(n, IntLit(sz)), bound)
	} else {
		g = App("bvule", SBool, App("bvmul", n.S, n, BVLitBig(big.NewInt(sz), 64)), bound)
		g = And(g, App("bvule", SBool, n, BVLitBig(pow2(40), 64)))
	}
	x.vc.oblige("allocbound", Implies(st.Reach, g), x.posOf(fr.fn, pos), fmt.Sprintf("allocation of n*%d bytes bounded by allocbound", sz))
}

func (x *Exec) ifaceFacts(st *State, iv Value, dyn Value) {
	// error codes: a struct (or pointer to struct) with an ErrorCode field
	var codeLeaf *Term
	switch dyn.K {
	case KStruct:
		stT := dyn.T.Underlying().(*types.Struct)
		for k := 0; k < stT.NumFields(); k++ {
			if stT.Field(k).Name() == "ErrorCode" && dyn.Fields[k].K == KScalar {
				codeLeaf = dyn.Fields[k].X
			}
		}
	}
	if codeLeaf != nil && codeLeaf.S == x.m().ixSort() || codeLeaf != nil {
		// guarded by reachability: allocations on exclusive paths share reference values
		x.vc.assume(Implies(st.Reach, Eq(x.errcode(iv.X, codeLeaf.S), codeLeaf)))
	}
}

func (x *Exec) errcode(e *Term, sort string) *Term {
	name := "errcode"
	if _, ok := x.vc.declared[name]; !ok {
		x.vc.declared[name] = sort
		x.vc.items = append(x.vc.items, Item{Kind: "declfun", Name: name, Raw: fmt.Sprintf("(declare-fun errcode (Int) %s)", sort)})
	}
	return App("errcode", x.vc.declared[name], e)
}

func (x *Exec) binop(fr *Frame, st *State, i *ssa.BinOp) Value {
	m := x.m()
	a := x.get(fr, st, i.X)
	b := x.get(fr, st, i.Y)
	switch i.Op {
	case token.EQL, token.NEQ:
		eq := x.valuesEqual(fr, st, a, b, i.Pos())
		if i.Op == token.NEQ {
			eq = Not(eq)
		}
		return Value{K: KScalar, X: eq}
	}
	if a.K == KString {
		if i.Op == token.ADD {
			// concatenation: fresh content, known length
			ln := x.ixAdd(a.Len, b.Len)
			arr := x.vc.fresh("concat", a.X.S)
			k := Sym("k!c", m.ixSort())
			ixT := IntTy{64, true}
			x.vc.assume(Forall([][2]string{{"k!c", m.ixSort()}}, And(
				Implies(And(m.cmp(token.LEQ, m.ix(0), k, ixT), m.cmp(token.LSS, k, a.Len, ixT)), Eq(Select(arr, k), Select(a.X, k))),
				Implies(And(m.cmp(token.LEQ, a.Len, k, ixT), m.cmp(token.LSS, k, ln, ixT)), Eq(Select(arr, k), Select(b.X, x.ixSub(k, a.Len)))))))
			return Value{K: KString, X: arr, Len: ln}
		}
		return x.havocValue(st, i.Type(), "strcmp")
	}
	it, ok := intTyOf(i.X.Type())
	if !ok {
		if a.K == KScalar && a.X.S == SBool {
			switch i.Op {
			case token.AND, token.LAND:
				return Value{K: KScalar, X: And(a.X, b.X)}
			case token.OR, token.LOR:
				return Value{K: KScalar, X: Or(a.X, b.X)}
			}
		}
		// floats etc.
		x.note("abstracted: non-integer arithmetic at " + x.posOf(fr.fn, i.Pos()).String())
		return x.havocValue(st, i.Type(), "fop")
	}
	switch i.Op {
	case token.LSS, token.LEQ, token.GTR, token.GEQ:
		return Value{K: KScalar, X: m.cmp(i.Op, a.X, b.X, it)}
	case token.SHL, token.SHR:
		st2, _ := intTyOf(i.Y.Type())
		r, side, err := m.shiftop(i.Op, a.X, b.X, it, st2)
		if err != nil {
			unsupported("%v", err)
		}
		if side != nil {
			x.check(fr, st, "shift", side, i.Pos(), "negative shift count")
		}
		return Value{K: KScalar, X: r}
	case token.QUO, token.REM:
		var nz *Term
		if m == ModeInt {
			nz = Not(Eq(b.X, IntLit(0)))
		} else {
			nz = Not(Eq(b.X, BVLitBig(big.NewInt(0), it.W)))
		}
		x.check(fr, st, "div", nz, i.Pos(), "integer divide by zero")
	}
	if fr.top.fc != nil && fr.top.fc.NoOverflow && m == ModeInt {
		switch i.Op {
		case token.ADD, token.SUB, token.MUL:
			var raw *Term
			switch i.Op {
			case token.ADD:
				raw = iAdd(a.X, b.X)
			case token.SUB:
				raw = iSub(a.X, b.X)
			default:
				raw = iMul(a.X, b.X)
			}
			x.vc.oblige("ovf", Implies(st.Reach, m.inRange(raw, it)), x.posOf(fr.fn, i.Pos()), fmt.Sprintf("no overflow in %s", i.Op))
			x.vc.assume(Implies(st.Reach, m.inRange(raw, it)))
			return Value{K: KScalar, X: raw}
		}
	}
	bx, by := x.bitInfo(i.X), x.bitInfo(i.Y)
	if m == ModeInt && (i.Op == token.OR || i.Op == token.XOR) && !it.Signed && it.W > 16 {
		_, la := litValue(a.X)
		_, lb := litValue(b.X)
		if !la && !lb && !(bx.MaxBits <= by.LowZero || by.MaxBits <= bx.LowZero) {
			// a|b == a+b when the operands occupy disjoint bit ranges; where that is not evident
			// from the syntax it becomes a side obligation (the lowering is exact only if it holds)
			var side *Term
			switch {
			case bx.LowZero > 0:
				side = iLt(b.X, IntLitBig(pow2(bx.LowZero)))
				by.MaxBits = bx.LowZero
			case by.LowZero > 0:
				side = iLt(a.X, IntLitBig(pow2(by.LowZero)))
				bx.MaxBits = by.LowZero
			}
			if side != nil {
				o := x.vc.oblige("bits", Implies(st.Reach, side), x.posOf(fr.fn, i.Pos()), "operands of "+i.Op.String()+" occupy disjoint bits (needed to lower the bit operation exactly in mode int)")
				o.Clause = "disjoint bits"
				x.vc.assume(Implies(st.Reach, side))
			}
		}
	}
	r, err := m.binop(i.Op, a.X, b.X, it, bx, by)
	if err != nil {
		unsupported("%v at %s", err, x.posOf(fr.fn, i.Pos()))
	}
	return Value{K: KScalar, X: r}
}

func (x *Exec) note(s string) {
	for _, n := range x.vc.notes {
		if n == s {
			return
		}
	}
	x.vc.notes = append(x.vc.notes, s)
}

func (x *Exec) valuesEqual(fr *Frame, st *State, a, b Value, pos token.Pos) *Term {
	m := x.m()
	// a bare reference (payload(i), arr(s)) compared with a pointer value
	if a.K == KScalar && b.K == KPtr && a.X != nil && b.Loc != nil && len(b.Loc.Elems) == 0 && a.X.S == b.Loc.Root.S {
		return Eq(a.X, b.Loc.Root)
	}
	if b.K == KScalar && a.K == KPtr && b.X != nil && a.Loc != nil && len(a.Loc.Elems) == 0 && b.X.S == a.Loc.Root.S {
		return Eq(b.X, a.Loc.Root)
	}
	if a.K != b.K {
		unsupported("comparison of values of different kinds (%v and %v)", a.K, b.K)
	}
	if (a.K == KPtr || a.K == KSlice) && (a.Loc == nil || b.Loc == nil) {
		unsupported("comparison of a %v value without a location", a.K)
	}
	switch a.K {
	case KScalar, KArray, KMap:
		if a.X == nil || b.X == nil || a.X.S != b.X.S {
			unsupported("comparison of different sorts")
		}
		if a.K == KArray && a.T != nil {
			// Go compares the N elements; SMT array equality would also compare the
			// (meaningless) indices outside 0..N-1
			if at, ok := a.T.Underlying().(*types.Array); ok && at.Len() <= 64 {
				c := TTrue
				for k := int64(0); k < at.Len(); k++ {
					c = And(c, Eq(Select(a.X, m.ix(k)), Select(b.X, m.ix(k))))
				}
				return c
			}
		}
		return Eq(a.X, b.X)
	case KIface:
		if b.K == KIface {
			return Eq(a.X, b.X)
		}
		unsupported("comparison of interface with non-interface")
	case KFunc:
		ax, bx := a.X, b.X
		if ax == nil {
			ax = nilRef
		}
		if bx == nil {
			bx = nilRef
		}
		return Eq(ax, bx)
	case KPtr:
		if a.Loc.Prefix != b.Loc.Prefix && !isNilLit(a.Loc.Root) && !isNilLit(b.Loc.Root) {
			return TFalse // different storage classes can never alias
		}
		c := Eq(a.Loc.Root, b.Loc.Root)
		if len(a.Loc.Elems) == len(b.Loc.Elems) {
			for k := range a.Loc.Elems {
				c = And(c, Eq(a.Loc.Elems[k], b.Loc.Elems[k]))
			}
		} else if !isNilLit(a.Loc.Root) && !isNilLit(b.Loc.Root) {
			unsupported("pointer comparison across nesting levels")
		}
		return c
	case KSlice: // only slice == nil is legal Go
		if isNilLit(b.Loc.Root) {
			return Eq(a.Loc.Root, nilRef)
		}
		if isNilLit(a.Loc.Root) {
			return Eq(b.Loc.Root, nilRef)
		}
		unsupported("slice comparison")
	case KString:
		ixT := IntTy{64, true}
		// expand for short constant lengths, otherwise quantify
		if n, ok := litValue(b.Len); ok && n.IsInt64() && n.Int64() <= 64 {
			c := Eq(a.Len, b.Len)
			for k := int64(0); k < n.Int64(); k++ {
				c = And(c, Eq(Select(a.X, m.ix(k)), Select(b.X, m.ix(k))))
			}
			return c
		}
		if n, ok := litValue(a.Len); ok && n.IsInt64() && n.Int64() <= 64 {
			return x.valuesEqual(fr, st, b, a, pos)
		}
		k := Sym("k!s", m.ixSort())
		return And(Eq(a.Len, b.Len), Forall([][2]string{{"k!s", m.ixSort()}},
			Implies(And(m.cmp(token.LEQ, m.ix(0), k, ixT), m.cmp(token.LSS, k, a.Len, ixT)), Eq(Select(a.X, k), Select(b.X, k)))))
	case KStruct:
		c := TTrue
		for k := range a.Fields {
			if a.Fields[k].K == KUnknown {
				continue
			}
			c = And(c, x.valuesEqual(fr, st, a.Fields[k], b.Fields[k], pos))
		}
		return c
	}
	unsupported("comparison of %v values", a.K)
	return nil
}

func (x *Exec) convert(fr *Frame, st *State, i *ssa.Convert) Value {
	m := x.m()
	v := x.get(fr, st, i.X)
	from, okf := intTyOf(i.X.Type())
	to, okt := intTyOf(i.Type())
	if okf && okt {
		return Value{K: KScalar, X: m.convert(v.X, from, to)}
	}
	ixT := IntTy{64, true}
	switch {
	case kindOf(i.Type()) == KString && v.K == KSlice:
		// string(bytes): copy
		arr := x.vc.fresh("str", SArr(m.ixSort(), m.intSort(IntTy{8, false})))
		k := Sym("k!v", m.ixSort())
		elemX := x.srcElemLeaves(st, v, k)[0]
		x.vc.assume(Forall([][2]string{{"k!v", m.ixSort()}}, Implies(And(m.cmp(token.LEQ, m.ix(0), k, ixT), m.cmp(token.LSS, k, v.Len, ixT)), Eq(Select(arr, k), elemX))))
		return Value{K: KString, X: arr, Len: v.Len}
	case kindOf(i.Type()) == KSlice && v.K == KString:
		e := i.Type().Underlying().(*types.Slice).Elem()
		r := x.newRef(st, fmt.Sprintf("f%d.%s", fr.id, i.Name()))
		loc := &Loc{Prefix: "Mem." + typeKey(e), Root: r, T: e}
		c := x.comp(st, loc.Prefix, x.compSortFor(m.leafSort(e), 1))
		st.H[loc.Prefix] = Store(c, r, v.X)
		return Value{K: KSlice, Loc: loc, Off: m.ix(0), Len: v.Len, Cap: v.Len}
	}
	x.note("abstracted: conversion " + i.X.Type().String() + " -> " + i.Type().String())
	return x.havocValue(st, i.Type(), "conv")
}

func (x *Exec) sliceOp(fr *Frame, st *State, i *ssa.Slice) Value {
	m := x.m()
	ixT := IntTy{64, true}
	base := x.get(fr, st, i.X)
	lo := x.ixValue(fr, st, i.Low)
	hi := x.ixValue(fr, st, i.High)
	mx := x.ixValue(fr, st, i.Max)
	if lo == nil {
		lo = m.ix(0)
	}
	le := func(a, b *Term) *Term { return m.cmp(token.LEQ, a, b, ixT) }
	switch base.K {
	case KSlice:
		if hi == nil {
			hi = base.Len
		}
		capEnd := base.Cap
		if mx != nil {
			capEnd = mx
			x.check(fr, st, "bounds", And(le(m.ix(0), lo), le(lo, hi), le(hi, mx), le(mx, base.Cap)), i.Pos(), "slice bounds out of range (3-index)")
		} else {
			x.check(fr, st, "bounds", And(le(m.ix(0), lo), le(lo, hi), le(hi, base.Cap)), i.Pos(), "slice bounds out of range")
		}
		return Value{K: KSlice, Loc: base.Loc, Off: x.ixAdd(base.Off, lo), Len: x.ixSub(hi, lo), Cap: x.ixSub(capEnd, lo)}
	case KString:
		if hi == nil {
			hi = base.Len
		}
		x.check(fr, st, "bounds", And(le(m.ix(0), lo), le(lo, hi), le(hi, base.Len)), i.Pos(), "string slice bounds out of range")
		if isZeroLit(lo) {
			return Value{K: KString, X: base.X, Len: hi}
		}
		arr := x.vc.fresh("substr", base.X.S)
		k := Sym("k!u", m.ixSort())
		x.vc.assume(Forall([][2]string{{"k!u", m.ixSort()}}, Implies(And(le(m.ix(0), k), m.cmp(token.LSS, k, x.ixSub(hi, lo), ixT)), Eq(Select(arr, k), Select(base.X, x.ixAdd(lo, k))))))
		return Value{K: KString, X: arr, Len: x.ixSub(hi, lo)}
	case KPtr:
		at := base.Loc.T.Underlying().(*types.Array)
		n := m.ix(at.Len())
		if hi == nil {
			hi = n
		}
		capEnd := n
		if mx != nil {
			capEnd = mx
		}
		x.check(fr, st, "nil", Or(Not(Eq(base.Loc.Root, nilRef)), Eq(n, m.ix(0))), i.Pos(), "nil array pointer sliced")
		x.check(fr, st, "bounds", And(le(m.ix(0), lo), le(lo, hi), le(hi, capEnd), le(capEnd, n)), i.Pos(), "slice bounds out of range (array)")
		off := lo
		if base.Loc.Off != nil {
			off = x.ixAdd(base.Loc.Off, lo)
		}
		return Value{K: KSlice, Loc: &Loc{Prefix: base.Loc.Prefix, Root: base.Loc.Root, Elems: base.Loc.Elems, T: at.Elem()}, Off: off, Len: x.ixSub(hi, lo), Cap: x.ixSub(capEnd, lo)}
	}
	unsupported("slice of %v", base.K)
	return Value{}
}

// assumeGlobalInvsAt: a global named in a globalinv is effectively final (mechanical scan, obligation
// "final" of the package initialiser) and the invariant is established by the initialiser (obligation
// "globalinv"), so it holds whenever the global is read - also after calls and loop cuts that havoc the
// heap component the global lives in.
func (x *Exec) assumeGlobalInvsAt(fr *Frame, st *State, g *ssa.Global) {
	if g.Pkg == nil || fr.fn.Name() == "init" {
		return
	}
	pi := x.vc.uni.pkgs[g.Pkg.Pkg.Path()]
	if pi == nil || pi.Contracts == nil {
		return
	}
	for _, gi := range pi.Contracts.GlobalInvs {
		ids := map[string]bool{}
		ceIdents(gi.Expr, ids)
		if !ids[g.Name()] {
			continue
		}
		env := &CEnv{x: x, fr: fr, st: st, old: &fr.entry, pkg: pi, mode: x.m(), vars: map[string]Value{}}
		t, msg := safeEvalBool(env, gi.Expr)
		if msg != "" {
			continue
		}
		x.vc.assume(Implies(st.Reach, t))
	}
}

// lockBalanced: a function under contract that itself locks or unlocks a mutex returns with every
// mutex in the state it found it (callers rely on this: a call never changes the ghost lock state).
func (x *Exec) lockBalanced(fr *Frame, st *State, ret *ssa.Return) {
	direct := false
	for _, b := range fr.fn.Blocks {
		for _, ins := range b.Instrs {
			var cc *ssa.CallCommon
			switch c := ins.(type) {
			case *ssa.Call:
				cc = c.Common()
			case *ssa.Defer:
				cc = c.Common()
			}
			if cc == nil {
				continue
			}
			if callee := cc.StaticCallee(); callee != nil {
				if _, ok := stubEffectTable[callee.String()]; ok && (strings.HasPrefix(callee.String(), "(*sync.Mutex).") || strings.HasPrefix(callee.String(), "(*sync.RWMutex).")) {
					direct = true
				}
			}
		}
	}
	if !direct || !contractMentionsLocks(fr.fc) {
		return
	}
	if fr.fc.LockHandoff {
		x.note("assumed: the function hands mutexes to or takes them from its caller (lockhandoff); callers' ghost lock state does not see it")
		return
	}
	for _, k := range sortedKeys(st.H) {
		if !strings.HasPrefix(k, "Lock.") {
			continue
		}
		entry, ok := fr.entry.H[k]
		if !ok {
			entry = x.vc.decl("H0."+k, st.H[k].S)
		}
		x.vc.oblige("lock.balanced", Implies(st.Reach, Eq(st.H[k], entry)), x.posOf(fr.fn, ret.Pos()), "every mutex is returned in the state it was found in ("+strings.TrimPrefix(k, "Lock.")+")")
	}
}

// contractMentionsLocks: the contract talks about lock state (wheld/rheld/unheld) somewhere; only such
// functions are checked for lock balance, every other callee is assumed balanced.
func contractMentionsLocks(fc *FuncContract) bool {
	if fc == nil {
		return false
	}
	has := func(src string) bool {
		return strings.Contains(src, "wheld(") || strings.Contains(src, "rheld(") || strings.Contains(src, "unheld(")
	}
	for _, c := range fc.Requires {
		if has(c.Src) {
			return true
		}
	}
	for _, c := range fc.Ensures {
		if has(c.Src) {
			return true
		}
	}
	for _, cs := range fc.CallSites {
		if cs.Clause != nil && has(cs.Clause.Src) {
			return true
		}
	}
	return false
}

// isType: the uninterpreted predicate "the dynamic type of interface value e is T" (named after T).
func (x *Exec) dynTypeIs(e *Term, t types.Type) *Term {
	name := "istype!" + strings.NewReplacer(" ", "_", "*", "ptr.", "/", ".", "(", "", ")", "", "[", "", "]", "", "{", "", "}", "").Replace(t.String())
	if _, ok := x.vc.declared[name]; !ok {
		x.vc.declared[name] = SBool
		x.vc.items = append(x.vc.items, Item{Kind: "declfun", Name: name, Raw: fmt.Sprintf("(declare-fun |%s| (Int) Bool)", name)})
	}
	return App("|"+name+"|", SBool, e)
}
