package main

// Exact machine-integer semantics in two encodings:
//   mode int: SMT Int with explicit wrap-around; mode bv: SMT bit-vectors.

import (
	"fmt"
	"go/token"
	"go/types"
	"math/big"
)

type Mode int

const (
	ModeInt Mode = iota
	ModeBV
)

func (m Mode) String() string {
	if m == ModeBV {
		return "bv"
	}
	return "int"
}

type IntTy struct {
	W      int
	Signed bool
}

func intTyOf(t types.Type) (IntTy, bool) {
	b, ok := t.Underlying().(*types.Basic)
	if !ok {
		return IntTy{}, false
	}
	switch b.Kind() {
	case types.Int8:
		return IntTy{8, true}, true
	case types.Int16:
		return IntTy{16, true}, true
	case types.Int32:
		return IntTy{32, true}, true
	case types.Int64, types.Int:
		return IntTy{64, true}, true
	case types.Uint8:
		return IntTy{8, false}, true
	case types.Uint16:
		return IntTy{16, false}, true
	case types.Uint32:
		return IntTy{32, false}, true
	case types.Uint64, types.Uint, types.Uintptr:
		return IntTy{64, false}, true
	case types.UntypedInt, types.UntypedRune:
		return IntTy{64, true}, true
	}
	return IntTy{}, false
}

func (it IntTy) min() *big.Int {
	if !it.Signed {
		return big.NewInt(0)
	}
	return new(big.Int).Neg(pow2(it.W - 1))
}
func (it IntTy) max() *big.Int {
	if !it.Signed {
		return new(big.Int).Sub(pow2(it.W), big.NewInt(1))
	}
	return new(big.Int).Sub(pow2(it.W-1), big.NewInt(1))
}

// sort of an integer type in a mode
func (m Mode) intSort(it IntTy) string {
	if m == ModeBV {
		return SBV(it.W)
	}
	return SInt
}

// IX is the sort used for slice indices / lengths (Go int).
func (m Mode) ixSort() string { return m.intSort(IntTy{64, true}) }

func (m Mode) lit(v *big.Int, it IntTy) *Term {
	if m == ModeBV {
		return BVLitBig(v, it.W)
	}
	return IntLitBig(v)
}
func (m Mode) ix(v int64) *Term { return m.lit(big.NewInt(v), IntTy{64, true}) }

// inRange: type range predicate for a fresh value (mode int only; bv is total).
func (m Mode) inRange(x *Term, it IntTy) *Term {
	if m == ModeBV {
		return TTrue
	}
	return And(iLe(IntLitBig(it.min()), x), iLe(x, IntLitBig(it.max())))
}

// wrapAddSub wraps a value known to lie within one modulus of the range.
func wrapNear(x *Term, it IntTy) *Term {
	if v, ok := litValue(x); ok {
		return IntLitBig(wrapBig(v, it))
	}
	m := IntLitBig(pow2(it.W))
	return Ite(iGt(x, IntLitBig(it.max())), iSub(x, m), Ite(iLt(x, IntLitBig(it.min())), iAdd(x, m), x))
}

func wrapBig(v *big.Int, it IntTy) *big.Int {
	m := pow2(it.W)
	r := new(big.Int).Mod(v, m)
	if it.Signed && r.Cmp(pow2(it.W-1)) >= 0 {
		r.Sub(r, m)
	}
	return r
}

// wrapFull wraps an arbitrary integer into the type's range.
func wrapFull(x *Term, it IntTy) *Term {
	if v, ok := litValue(x); ok {
		return IntLitBig(wrapBig(v, it))
	}
	m := IntLitBig(pow2(it.W))
	if !it.Signed {
		return iModE(x, m)
	}
	h := IntLitBig(pow2(it.W - 1))
	return iSub(iModE(iAdd(x, h), m), h)
}

// toUnsigned gives the two's-complement unsigned representation (mode int).
func toUnsigned(x *Term, it IntTy) *Term {
	if !it.Signed {
		return x
	}
	return iModE(x, IntLitBig(pow2(it.W)))
}

// truncated division (Go semantics) over Int, b != 0 assumed
func truncDiv(a, b *Term, it IntTy) *Term {
	if !it.Signed {
		return iDivE(a, b)
	}
	if vb, ok := litValue(b); ok && vb.Sign() > 0 {
		return Ite(iGe(a, IntLit(0)), iDivE(a, b), iNeg(iDivE(iNeg(a), b)))
	}
	return Ite(iGe(a, IntLit(0)),
		Ite(iGt(b, IntLit(0)), iDivE(a, b), iNeg(iDivE(a, iNeg(b)))),
		Ite(iGt(b, IntLit(0)), iNeg(iDivE(iNeg(a), b)), iDivE(iNeg(a), iNeg(b))))
}

// bit-run extraction for the int encoding: bits [lo,hi) of unsigned x
func bitsRun(ux *Term, lo, hi int) *Term {
	t := ux
	if lo > 0 {
		t = iDivE(t, IntLitBig(pow2(lo)))
	}
	return iModE(t, IntLitBig(pow2(hi-lo)))
}

// andConst: unsigned x & c for constant c (as Int arithmetic), width w
func andConstU(ux *Term, c *big.Int, w int) *Term {
	if c.Sign() == 0 {
		return IntLit(0)
	}
	full := new(big.Int).Sub(pow2(w), big.NewInt(1))
	if c.Cmp(full) == 0 {
		return ux
	}
	// decompose c into runs of ones
	var sum *Term
	i := 0
	for i < w {
		if c.Bit(i) == 0 {
			i++
			continue
		}
		j := i
		for j < w && c.Bit(j) == 1 {
			j++
		}
		var part *Term
		if j == w {
			// high run: x - (x mod 2^i)
			part = iSub(ux, iModE(ux, IntLitBig(pow2(i))))
			if i == 0 {
				part = ux
			}
		} else {
			part = iMul(bitsRun(ux, i, j), IntLitBig(pow2(i)))
		}
		if sum == nil {
			sum = part
		} else {
			sum = iAdd(sum, part)
		}
		i = j
	}
	return sum
}

type arithErr struct{ msg string }

func (e arithErr) Error() string { return e.msg }

// BitInfo carries syntactic knowledge about operands used to lower | ^ in mode int.
type BitInfo struct {
	MaxBits int // value < 2^MaxBits (as unsigned)
	LowZero int // low LowZero bits are zero
}

// binop computes x op y for Go integer type it. bx/by give bit knowledge for | and ^.
func (m Mode) binop(op token.Token, x, y *Term, it IntTy, bx, by BitInfo) (*Term, error) {
	if m == ModeBV {
		return bvBinop(op, x, y, it)
	}
	fromU := func(u *Term) *Term { // unsigned repr back to typed value
		if !it.Signed {
			return u
		}
		return wrapNear(u, it) // u in [0,2^w)
	}
	switch op {
	case token.ADD:
		return wrapNear(iAdd(x, y), it), nil
	case token.SUB:
		return wrapNear(iSub(x, y), it), nil
	case token.MUL:
		return wrapFull(iMul(x, y), it), nil
	case token.QUO:
		q := truncDiv(x, y, it)
		if it.Signed {
			q = wrapNear(q, it) // MinInt / -1
		}
		return q, nil
	case token.REM:
		if !it.Signed {
			return iModE(x, y), nil
		}
		q := truncDiv(x, y, it)
		return iSub(x, iMul(y, q)), nil
	case token.AND, token.OR, token.XOR, token.AND_NOT:
		cx, okx := litValue(x)
		cy, oky := litValue(y)
		if okx && !oky && op != token.AND_NOT {
			x, y, cx, cy, okx, oky = y, x, cy, cx, oky, okx
			bx, by = by, bx
		}
		if oky {
			ux := toUnsigned(x, it)
			cu := new(big.Int).Mod(cy, pow2(it.W))
			a := andConstU(ux, cu, it.W)
			switch op {
			case token.AND:
				return fromU(a), nil
			case token.OR:
				return fromU(iSub(iAdd(ux, IntLitBig(cu)), a)), nil
			case token.XOR:
				return fromU(iSub(iAdd(ux, IntLitBig(cu)), iMul(IntLit(2), a))), nil
			case token.AND_NOT:
				return fromU(iSub(ux, a)), nil
			}
		}
		_ = okx
		_ = cx
		// disjoint bit ranges: a|b == a^b == a+b
		if (op == token.OR || op == token.XOR) && !it.Signed {
			if bx.MaxBits <= by.LowZero || by.MaxBits <= bx.LowZero {
				return iAdd(x, y), nil
			}
		}
		if it.W <= 16 {
			ux, uy := toUnsigned(x, it), toUnsigned(y, it)
			var sum *Term = IntLit(0)
			for i := 0; i < it.W; i++ {
				bxi, byi := bitsRun(ux, i, i+1), bitsRun(uy, i, i+1)
				var b *Term
				switch op {
				case token.AND:
					b = iMul(bxi, byi) // product of 0/1 values; keep linear via ite
					b = Ite(And(Eq(bxi, IntLit(1)), Eq(byi, IntLit(1))), IntLit(1), IntLit(0))
				case token.OR:
					b = Ite(Or(Eq(bxi, IntLit(1)), Eq(byi, IntLit(1))), IntLit(1), IntLit(0))
				case token.XOR:
					b = Ite(Eq(bxi, byi), IntLit(0), IntLit(1))
				case token.AND_NOT:
					b = Ite(And(Eq(bxi, IntLit(1)), Eq(byi, IntLit(0))), IntLit(1), IntLit(0))
				}
				sum = iAdd(sum, iMul(b, IntLitBig(pow2(i))))
			}
			return fromU(sum), nil
		}
		return nil, arithErr{fmt.Sprintf("bit operation %s on two symbolic %d-bit operands is not lowered in mode int (use mode bv)", op, it.W)}
	case token.SHL, token.SHR:
		return nil, arithErr{"shift handled by shiftop"}
	}
	return nil, arithErr{fmt.Sprintf("unsupported integer operator %s", op)}
}

// shiftop: x << s or x >> s; st is the type of the count. Returns value and a
// side condition that must hold (count non-negative), nil if none.
func (m Mode) shiftop(op token.Token, x, s *Term, it, st IntTy) (*Term, *Term, error) {
	if m == ModeBV {
		return bvShift(op, x, s, it, st)
	}
	var side *Term
	if st.Signed {
		side = iGe(s, IntLit(0))
	}
	one := func(k int) *Term {
		if op == token.SHL {
			if k >= it.W {
				return IntLit(0)
			}
			return wrapFull(iMul(x, IntLitBig(pow2(k))), it)
		}
		if k >= it.W {
			if it.Signed {
				return Ite(iLt(x, IntLit(0)), IntLit(-1), IntLit(0))
			}
			return IntLit(0)
		}
		return iDivE(x, IntLitBig(pow2(k)))
	}
	if c, ok := litValue(s); ok {
		if !c.IsInt64() || c.Int64() >= int64(it.W) {
			return one(it.W), side, nil
		}
		return one(int(c.Int64())), side, nil
	}
	// symbolic count: table
	res := one(it.W)
	for k := it.W - 1; k >= 0; k-- {
		res = Ite(Eq(s, IntLit(int64(k))), one(k), res)
	}
	return res, side, nil
}

func (m Mode) cmp(op token.Token, x, y *Term, it IntTy) *Term {
	if m == ModeBV {
		var o string
		switch op {
		case token.LSS:
			o = "bvult"
			if it.Signed {
				o = "bvslt"
			}
		case token.LEQ:
			o = "bvule"
			if it.Signed {
				o = "bvsle"
			}
		case token.GTR:
			o = "bvugt"
			if it.Signed {
				o = "bvsgt"
			}
		case token.GEQ:
			o = "bvuge"
			if it.Signed {
				o = "bvsge"
			}
		case token.EQL:
			return Eq(x, y)
		case token.NEQ:
			return Not(Eq(x, y))
		}
		return App(o, SBool, x, y)
	}
	switch op {
	case token.LSS:
		return iLt(x, y)
	case token.LEQ:
		return iLe(x, y)
	case token.GTR:
		return iGt(x, y)
	case token.GEQ:
		return iGe(x, y)
	case token.EQL:
		return Eq(x, y)
	case token.NEQ:
		return Not(Eq(x, y))
	}
	panic("cmp: bad op " + op.String())
}

// convert between integer types
func (m Mode) convert(x *Term, from, to IntTy) *Term {
	if m == ModeBV {
		switch {
		case to.W == from.W:
			return x
		case to.W < from.W:
			return App(fmt.Sprintf("(_ extract %d 0)", to.W-1), SBV(to.W), x)
		case from.Signed:
			return App(fmt.Sprintf("(_ sign_extend %d)", to.W-from.W), SBV(to.W), x)
		default:
			return App(fmt.Sprintf("(_ zero_extend %d)", to.W-from.W), SBV(to.W), x)
		}
	}
	// value preserved if range included
	if from.min().Cmp(to.min()) >= 0 && from.max().Cmp(to.max()) <= 0 {
		return x
	}
	if from.W == to.W || (from.min().Cmp(new(big.Int).Neg(pow2(to.W))) >= 0 && from.max().Cmp(pow2(to.W+1)) < 0 && false) {
		return wrapNear(x, to)
	}
	return wrapFull(x, to)
}

func (m Mode) neg(x *Term, it IntTy) *Term {
	if m == ModeBV {
		return App("bvneg", x.S, x)
	}
	return wrapNear(iNeg(x), it)
}

func (m Mode) compl(x *Term, it IntTy) *Term { // ^x
	if m == ModeBV {
		return App("bvnot", x.S, x)
	}
	if it.Signed {
		return iSub(iNeg(x), IntLit(1))
	}
	return iSub(IntLitBig(it.max()), x)
}

// ---- bit-vector encodings

func bvBinop(op token.Token, x, y *Term, it IntTy) (*Term, error) {
	var o string
	switch op {
	case token.ADD:
		o = "bvadd"
	case token.SUB:
		o = "bvsub"
	case token.MUL:
		o = "bvmul"
	case token.QUO:
		o = "bvudiv"
		if it.Signed {
			o = "bvsdiv"
		}
	case token.REM:
		o = "bvurem"
		if it.Signed {
			o = "bvsrem"
		}
	case token.AND:
		o = "bvand"
	case token.OR:
		o = "bvor"
	case token.XOR:
		o = "bvxor"
	case token.AND_NOT:
		return App("bvand", x.S, x, App("bvnot", y.S, y)), nil
	default:
		return nil, arithErr{"unsupported bv operator " + op.String()}
	}
	return App(o, x.S, x, y), nil
}

func bvShift(op token.Token, x, s *Term, it, st IntTy) (*Term, *Term, error) {
	// bring the count to the width of x, saturating
	var side *Term
	if st.Signed {
		side = App("bvsge", SBool, s, BVLitBig(big.NewInt(0), st.W))
	}
	var cnt *Term
	var big_ *Term // count >= width
	wlit := BVLitBig(big.NewInt(int64(it.W)), st.W)
	big_ = App("bvuge", SBool, s, wlit)
	switch {
	case st.W == it.W:
		cnt = s
	case st.W < it.W:
		cnt = App(fmt.Sprintf("(_ zero_extend %d)", it.W-st.W), SBV(it.W), s)
	default:
		cnt = App(fmt.Sprintf("(_ extract %d 0)", it.W-1), SBV(it.W), s)
	}
	var o string
	var over *Term
	switch {
	case op == token.SHL:
		o = "bvshl"
		over = BVLitBig(big.NewInt(0), it.W)
	case it.Signed:
		o = "bvashr"
		over = App("bvashr", x.S, x, BVLitBig(big.NewInt(int64(it.W-1)), it.W))
	default:
		o = "bvlshr"
		over = BVLitBig(big.NewInt(0), it.W)
	}
	// SMT-LIB shifts already saturate for counts >= width when the count has the same width;
	// the explicit ite covers truncated wide counts.
	return Ite(big_, over, App(o, x.S, x, cnt)), side, nil
}
