package main

// database.DB.View / Update take a callback that the database runs at most once inside a transaction. Instead
// of havocking everything at such a call (which would also forget what the caller knows about its own fresh
// data), the callback's body is executed symbolically once on an arbitrary transaction, and the state after
// the call is either that (the callback ran) or the state before (it did not run: then an error is returned).
// Assumption (listed): the database calls the callback at most once and touches nothing else the caller can see.

import (
	"go/token"
	"go/types"
	"strings"

	"golang.org/x/tools/go/ssa"
)

func isDBCallbackMethod(c *ssa.CallCommon) bool {
	if !c.IsInvoke() || (c.Method.Name() != "View" && c.Method.Name() != "Update") {
		return false
	}
	n, ok := types.Unalias(c.Value.Type()).(*types.Named)
	if !ok || n.Obj().Pkg() == nil {
		return false
	}
	return n.Obj().Name() == "DB" && strings.HasSuffix(n.Obj().Pkg().Path(), "/database")
}

func (x *Exec) callbackOnce(fr *Frame, st *State, c *ssa.CallCommon, fnv Value, pos token.Pos, resT types.Type) Value {
	x.note("abstracted: " + c.Method.FullName() + " runs its callback at most once on an arbitrary transaction and touches nothing else (assumed)")
	reach := st.Reach
	ran := x.vc.fresh("cb.ran", SBool)
	pre := st.clone()
	txT := fnv.Fn.Signature.Params().At(0).Type()
	txArg := x.havocValue(st, txT, "dbtx")
	if txArg.K == KIface {
		x.vc.assume(Implies(reach, Not(Eq(txArg.X, nilRef))))
	}
	var cbResT types.Type = fnv.Fn.Signature.Results()
	if fnv.Fn.Signature.Results().Len() == 1 {
		cbResT = fnv.Fn.Signature.Results().At(0).Type()
	}
	r := x.callFunction(fr, st, fnv.Fn, []Value{txArg}, fnv.Binds, pos, cbResT)
	after := st.clone()
	after.Reach = And(reach, ran)
	pre.Reach = And(reach, Not(ran))
	merged := x.mergeStates("cb", []State{after, pre})
	merged.Reach = reach
	*st = merged
	e := x.havocValue(st, resT, "cb.err")
	if e.K == KIface {
		x.vc.assume(Implies(And(reach, Not(ran)), Not(Eq(e.X, nilRef))))
		if r.K == KIface {
			x.vc.assume(Implies(And(reach, ran, Not(Eq(r.X, nilRef))), Not(Eq(e.X, nilRef))))
		}
	}
	return e
}
