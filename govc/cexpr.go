package main

// Contract expression language: lexer and parser.
//
//   forall k in lo..hi: P      (range lo <= k < hi)
//   forall k int: P            (typed, unbounded)
//   a ==> b, a <==> b, c ? x : y, Go operators with Go precedence,
//   old(e), len(s), s[i], s[i:j], p.f, f(args), nil, true, false, result, result.N, err

import (
	"fmt"
	"math/big"
	"strings"
)

type CE struct {
	Kind string // id num bool nil un bin tern call field index slice old forall exists str
	Name string // identifier, operator, field or function name
	Args []*CE
	Num  *big.Int
	Vars []string // bound variables
	Typ  string   // type of bound variables for typed quantifiers ("" => ranged)
	Pos  int
}

func (e *CE) String() string {
	switch e.Kind {
	case "id", "bool", "nil":
		return e.Name
	case "num":
		return e.Num.String()
	case "str":
		return fmt.Sprintf("%q", e.Name)
	case "un":
		return e.Name + e.Args[0].String()
	case "bin":
		return "(" + e.Args[0].String() + " " + e.Name + " " + e.Args[1].String() + ")"
	case "tern":
		return "(" + e.Args[0].String() + " ? " + e.Args[1].String() + " : " + e.Args[2].String() + ")"
	case "call":
		var as []string
		for _, a := range e.Args {
			as = append(as, a.String())
		}
		return e.Name + "(" + strings.Join(as, ", ") + ")"
	case "mcall":
		var as []string
		for _, a := range e.Args[1:] {
			as = append(as, a.String())
		}
		return e.Args[0].String() + "." + e.Name + "(" + strings.Join(as, ", ") + ")"
	case "field":
		return e.Args[0].String() + "." + e.Name
	case "index":
		return e.Args[0].String() + "[" + e.Args[1].String() + "]"
	case "slice":
		s := e.Args[0].String() + "["
		if e.Args[1] != nil {
			s += e.Args[1].String()
		}
		s += ":"
		if e.Args[2] != nil {
			s += e.Args[2].String()
		}
		return s + "]"
	case "old":
		return "old(" + e.Args[0].String() + ")"
	case "forall", "exists":
		if e.Typ != "" {
			return "(" + e.Kind + " " + strings.Join(e.Vars, ", ") + " " + e.Typ + ": " + e.Args[0].String() + ")"
		}
		return "(" + e.Kind + " " + strings.Join(e.Vars, ", ") + " in " + e.Args[0].String() + ".." + e.Args[1].String() + ": " + e.Args[2].String() + ")"
	}
	return "?" + e.Kind
}

type ctok struct {
	k   string // id num str op eof
	s   string
	n   *big.Int
	pos int
}

type clexer struct {
	src  string
	toks []ctok
	i    int
}

var cops = []string{"<==>", "==>", "&&", "||", "==", "!=", "<=", ">=", "<<", ">>", "&^", "..", "+", "-", "*", "/", "%", "&", "|", "^", "<", ">", "!", "(", ")", "[", "]", "{", "}", ",", ":", "?", ".", "@"}

func clex(src string) ([]ctok, error) {
	var toks []ctok
	i := 0
	for i < len(src) {
		c := src[i]
		if c == ' ' || c == '\t' || c == '\n' {
			i++
			continue
		}
		if c >= '0' && c <= '9' {
			j := i
			for j < len(src) && (src[j] >= '0' && src[j] <= '9' || src[j] >= 'a' && src[j] <= 'f' || src[j] >= 'A' && src[j] <= 'F' || src[j] == 'x' || src[j] == 'X' || src[j] == '_') {
				// stop at ".." range operator is automatic since '.' not included
				j++
			}
			txt := strings.ReplaceAll(src[i:j], "_", "")
			n, ok := new(big.Int).SetString(txt, 0)
			if !ok {
				return nil, fmt.Errorf("bad number %q", src[i:j])
			}
			toks = append(toks, ctok{k: "num", n: n, pos: i})
			i = j
			continue
		}
		if c == '_' || c >= 'a' && c <= 'z' || c >= 'A' && c <= 'Z' {
			j := i
			for j < len(src) && (src[j] == '_' || src[j] >= 'a' && src[j] <= 'z' || src[j] >= 'A' && src[j] <= 'Z' || src[j] >= '0' && src[j] <= '9') {
				j++
			}
			toks = append(toks, ctok{k: "id", s: src[i:j], pos: i})
			i = j
			continue
		}
		if c == '"' {
			j := i + 1
			for j < len(src) && src[j] != '"' {
				if src[j] == '\\' {
					j++
				}
				j++
			}
			if j >= len(src) {
				return nil, fmt.Errorf("unterminated string")
			}
			var s string
			if _, err := fmt.Sscanf(src[i:j+1], "%q", &s); err != nil {
				return nil, err
			}
			toks = append(toks, ctok{k: "str", s: s, pos: i})
			i = j + 1
			continue
		}
		matched := false
		for _, op := range cops {
			if strings.HasPrefix(src[i:], op) {
				toks = append(toks, ctok{k: "op", s: op, pos: i})
				i += len(op)
				matched = true
				break
			}
		}
		if !matched {
			return nil, fmt.Errorf("unexpected character %q at %d in %q", c, i, src)
		}
	}
	toks = append(toks, ctok{k: "eof", pos: len(src)})
	return toks, nil
}

type cparser struct {
	toks []ctok
	i    int
	src  string
}

func parseCE(src string) (e *CE, err error) {
	toks, err := clex(src)
	if err != nil {
		return nil, err
	}
	p := &cparser{toks: toks, src: src}
	defer func() {
		if r := recover(); r != nil {
			if s, ok := r.(cparseErr); ok {
				err = fmt.Errorf("%s in %q", string(s), src)
				return
			}
			panic(r)
		}
	}()
	e = p.expr()
	if p.peek().k != "eof" {
		p.fail("trailing input at %d", p.peek().pos)
	}
	return e, nil
}

type cparseErr string

func (p *cparser) fail(f string, a ...any) { panic(cparseErr(fmt.Sprintf(f, a...))) }
func (p *cparser) peek() ctok             { return p.toks[p.i] }
func (p *cparser) next() ctok             { t := p.toks[p.i]; p.i++; return t }
func (p *cparser) isOp(s string) bool     { t := p.peek(); return t.k == "op" && t.s == s }
func (p *cparser) isID(s string) bool     { t := p.peek(); return t.k == "id" && t.s == s }
// isQuant: a quantifier keyword followed by a bound variable (a program variable may itself be
// called "exists" or "forall": then it is followed by an operator, not a name).
func (p *cparser) isQuant() bool {
	if !(p.isID("forall") || p.isID("exists")) {
		return false
	}
	return p.i+1 < len(p.toks) && p.toks[p.i+1].k == "id"
}

func (p *cparser) expectOp(s string) {
	if !p.isOp(s) {
		p.fail("expected %q at %d, got %q", s, p.peek().pos, p.peek().s)
	}
	p.i++
}

func (p *cparser) expr() *CE {
	if p.isQuant() {
		kind := p.next().s
		var vars []string
		for {
			t := p.next()
			if t.k != "id" {
				p.fail("expected bound variable")
			}
			vars = append(vars, t.s)
			if p.isOp(",") {
				p.i++
				continue
			}
			break
		}
		if p.isID("in") {
			p.i++
			lo := p.binary(5)
			p.expectOp("..")
			hi := p.binary(5)
			p.expectOp(":")
			body := p.expr()
			return &CE{Kind: kind, Vars: vars, Args: []*CE{lo, hi, body}}
		}
		star := ""
		if p.isOp("*") {
			p.i++
			star = "*"
		}
		t := p.next()
		if t.k != "id" {
			p.fail("expected type or 'in' after bound variables")
		}
		tname := t.s
		if p.isOp(".") { // qualified type name pkg.T
			p.i++
			t2 := p.next()
			if t2.k != "id" {
				p.fail("expected type name after '.'")
			}
			tname += "." + t2.s
		}
		p.expectOp(":")
		body := p.expr()
		return &CE{Kind: kind, Vars: vars, Typ: star + tname, Args: []*CE{body}}
	}
	return p.ternary()
}

func (p *cparser) ternary() *CE {
	c := p.impl()
	if p.isOp("?") {
		p.i++
		a := p.expr()
		p.expectOp(":")
		b := p.expr()
		return &CE{Kind: "tern", Args: []*CE{c, a, b}}
	}
	return c
}

func (p *cparser) impl() *CE {
	l := p.binary(1)
	if p.isOp("==>") || p.isOp("<==>") {
		op := p.next().s
		var r *CE
		if p.isQuant() {
			r = p.expr()
		} else {
			r = p.impl()
		}
		return &CE{Kind: "bin", Name: op, Args: []*CE{l, r}}
	}
	return l
}

func cprec(op string) int {
	switch op {
	case "||":
		return 1
	case "&&":
		return 2
	case "==", "!=", "<", "<=", ">", ">=":
		return 3
	case "+", "-", "|", "^":
		return 5
	case "*", "/", "%", "<<", ">>", "&", "&^":
		return 6
	}
	return 0
}

func (p *cparser) binary(min int) *CE {
	l := p.unary()
	for {
		t := p.peek()
		if t.k != "op" {
			return l
		}
		pr := cprec(t.s)
		if pr == 0 || pr < min {
			return l
		}
		p.i++
		var r *CE
		if (t.s == "&&" || t.s == "||") && (p.isQuant()) {
			r = p.expr()
		} else {
			r = p.binary(pr + 1)
		}
		l = &CE{Kind: "bin", Name: t.s, Args: []*CE{l, r}, Pos: t.pos}
	}
}

func (p *cparser) unary() *CE {
	if p.isOp("!") || p.isOp("-") || p.isOp("^") || p.isOp("*") {
		op := p.next().s
		return &CE{Kind: "un", Name: op, Args: []*CE{p.unary()}}
	}
	return p.postfix()
}

func (p *cparser) postfix() *CE {
	e := p.primary()
	for {
		switch {
		case p.isOp("."):
			p.i++
			t := p.next()
			if t.k == "num" { // result.0
				e = &CE{Kind: "field", Name: t.n.String(), Args: []*CE{e}}
				continue
			}
			if t.k == "op" && t.s == "*" { // p.* in modifies clauses
				e = &CE{Kind: "field", Name: "*", Args: []*CE{e}}
				continue
			}
			if t.k != "id" {
				p.fail("expected field name at %d", t.pos)
			}
			if p.isOp("(") {
				p.i++
				args := []*CE{e}
				args = append(args, p.args()...)
				e = &CE{Kind: "mcall", Name: t.s, Args: args}
				continue
			}
			e = &CE{Kind: "field", Name: t.s, Args: []*CE{e}}
		case p.isOp("["):
			p.i++
			var lo, hi *CE
			if !p.isOp(":") {
				lo = p.impl()
			}
			if p.isOp(":") {
				p.i++
				if !p.isOp("]") {
					hi = p.impl()
				}
				p.expectOp("]")
				e = &CE{Kind: "slice", Args: []*CE{e, lo, hi}}
			} else {
				p.expectOp("]")
				e = &CE{Kind: "index", Args: []*CE{e, lo}}
			}
		default:
			return e
		}
	}
}

func (p *cparser) args() []*CE {
	var args []*CE
	if p.isOp(")") {
		p.i++
		return args
	}
	for {
		args = append(args, p.expr())
		if p.isOp(",") {
			p.i++
			continue
		}
		p.expectOp(")")
		return args
	}
}

func (p *cparser) primary() *CE {
	t := p.next()
	switch t.k {
	case "num":
		return &CE{Kind: "num", Num: t.n}
	case "str":
		return &CE{Kind: "str", Name: t.s}
	case "id":
		switch t.s {
		case "true", "false":
			return &CE{Kind: "bool", Name: t.s}
		case "nil":
			return &CE{Kind: "nil", Name: "nil"}
		case "old":
			p.expectOp("(")
			e := p.expr()
			p.expectOp(")")
			return &CE{Kind: "old", Args: []*CE{e}}
		}
		if p.isOp("(") {
			p.i++
			return &CE{Kind: "call", Name: t.s, Args: p.args(), Pos: t.pos}
		}
		return &CE{Kind: "id", Name: t.s, Pos: t.pos}
	case "op":
		if t.s == "(" {
			e := p.expr()
			p.expectOp(")")
			return e
		}
	}
	p.fail("unexpected token %q at %d", t.s, t.pos)
	return nil
}
