package main

// Symbolic execution of go/ssa function bodies into verification conditions.

import (
	"fmt"
	"go/constant"
	"go/token"
	"go/types"
	"math/big"
	"sort"
	"strings"

	"golang.org/x/tools/go/ssa"
)

// ---- script items and obligations

type Item struct {
	Kind string // decl | def | assume | declfun | raw
	Name string
	Sort string
	Term *Term
	Raw  string
}

type Obl struct {
	Name   string
	Kind   string
	Goal   *Term
	N      int // items visible
	Desc   string
	Pos    token.Position
	Slow   bool
	Fn     string
	Clause string
	Splits []*Term // case-split terms (each a Bool); query i asserts Splits[i]; plus coverage
	VC     *VC
	Expect string // "unsat" (default) or "sat" for cover/vacuity checks
	ClauseCE *CE          // the contract clause behind a post obligation (for replay)
	FC       *FuncContract
}

type VC struct {
	mode     Mode
	items    []Item
	declared map[string]string
	obls     []*Obl
	counters map[string]int
	assumed  map[string]bool
	fnName   string
	uni      *Universe
	pkg      *PkgInfo
	specsUsed map[string]bool
	abstracted []string
	notes     []string
	inputSyms []InputSym // for replay
	nfresh    int
	target    *ssa.Function // function under proof (nil for lemmas)
	globalRefs map[string]int64
	nheap      int
	sideStack [][]*Term
	specHeap  map[string][][2]string // spec function -> heap components (name, sort) it reads
}

type InputSym struct {
	Param string
	Path  string // e.g. "", ".len", "[k]"
	Sym   string
	ByteSlice bool
	BigInt    bool
}

func (vc *VC) decl(name, sort string) *Term {
	q := quoteSym(name)
	if s, ok := vc.declared[q]; ok {
		if s != sort {
			panic(fmt.Sprintf("redeclaration of %s with sort %s (was %s)", name, sort, s))
		}
		return &Term{Op: q, S: sort}
	}
	vc.declared[q] = sort
	vc.items = append(vc.items, Item{Kind: "decl", Name: q, Sort: sort})
	return &Term{Op: q, S: sort}
}

func (vc *VC) fresh(hint, sort string) *Term {
	vc.nfresh++
	return vc.decl(fmt.Sprintf("%s!%d", hint, vc.nfresh), sort)
}

// define introduces a named abbreviation for a non-trivial term.
func (vc *VC) define(name string, t *Term) *Term {
	if len(t.Args) == 0 && len(t.Vars) == 0 {
		return t
	}
	q := quoteSym(name)
	if _, ok := vc.declared[q]; ok {
		vc.nfresh++
		q = quoteSym(fmt.Sprintf("%s~%d", name, vc.nfresh))
	}
	vc.declared[q] = t.S
	vc.items = append(vc.items, Item{Kind: "def", Name: q, Sort: t.S, Term: t})
	return &Term{Op: q, S: t.S}
}

func (vc *VC) assume(t *Term) {
	if isTrue(t) {
		return
	}
	vc.items = append(vc.items, Item{Kind: "assume", Term: t})
}

func (vc *VC) assumeOnce(t *Term) {
	if isTrue(t) {
		return
	}
	if n := len(vc.sideStack); n > 0 {
		// under a binder: the fact becomes a hypothesis of the quantified body
		vc.sideStack[n-1] = append(vc.sideStack[n-1], t)
		return
	}
	s := t.String()
	if vc.assumed[s] {
		return
	}
	vc.assumed[s] = true
	vc.assume(t)
}

func (vc *VC) oblige(kind string, goal *Term, pos token.Position, desc string) *Obl {
	vc.counters[kind]++
	o := &Obl{
		Name: fmt.Sprintf("%s#%s.%d", vc.fnName, kind, vc.counters[kind]),
		Kind: kind, Goal: goal, N: len(vc.items), Desc: desc, Pos: pos, Fn: vc.fnName, VC: vc,
	}
	vc.obls = append(vc.obls, o)
	return o
}

// ---- state

type State struct {
	H     map[string]*Term // heap components (and "$alloc")
	Reach *Term
	Spec  bool // heap of a spec function body: components are implicit parameters
}

func (s State) clone() State {
	h := make(map[string]*Term, len(s.H))
	for k, v := range s.H {
		h[k] = v
	}
	return State{H: h, Reach: s.Reach, Spec: s.Spec}
}

type RetSite struct {
	St      State
	Results []Value
}

type Frame struct {
	fn       *ssa.Function
	env      map[ssa.Value]Value
	id       int
	depth    int
	fc       *FuncContract // contract of this function (loop specs), may be nil
	pc       *PkgContracts
	pkg      *PkgInfo
	params   []Value
	entry    State
	top      *Frame
	parent   *Frame // the frame this one is inlined into (nil for the function under contract)
	cur      ssa.Instruction // the instruction being executed
	nopanic  bool
	defers   []*ssa.Defer
	loops    map[*ssa.BasicBlock]*LoopInfo
	edge     map[[2]int]State
	done     map[int]State // state at end of block
	rets     []RetSite
	freeVars []Value
	loopHead    map[*LoopInfo]State
	loopVariant map[*LoopInfo]*Term
	deferState  []deferRec
	ghosts      map[string]Value
	whereSym    *Term
	iter        map[int]*Term // ghost iteration counter of each loop (by ordinal), as seen at the current point
	autoInv     map[*LoopInfo][]*autoInv
}

type deferRec struct {
	ins   *ssa.Defer
	reach *Term
	block *ssa.BasicBlock
}

type LoopInfo struct {
	Header  *ssa.BasicBlock
	Ordinal int
	Body    map[*ssa.BasicBlock]bool
	Back    []*ssa.BasicBlock // sources of back edges
}

type Exec struct {
	vc      *VC
	nframes int
	top     *Frame
	inlineStack []*ssa.Function
	closureBinds map[string]Value // captured variables of the closure whose contract is being applied at a call
	taint map[string]bool // heap components that were assigned an interior pointer (partial mode): reading them abandons the path
}

func (x *Exec) m() Mode { return x.vc.mode }

// ---- heap access

func (x *Exec) compSortFor(leafSort string, nIdx int) string {
	s := leafSort
	for i := 0; i < nIdx; i++ {
		s = SArr(x.m().ixSort(), s)
	}
	return SArr(refSort, s)
}

func (x *Exec) comp(st *State, name, sort string) *Term {
	if t, ok := st.H[name]; ok {
		if t.S != sort {
			unsupported("heap component %s used at sorts %s and %s", name, t.S, sort)
		}
		return t
	}
	if st.Spec {
		// inside a spec function body: heap components are implicit parameters
		t := Sym("hp."+name, sort)
		st.H[name] = t
		return t
	}
	t := x.vc.decl("H0."+name, sort)
	st.H[name] = t
	return t
}

func (x *Exec) alloc(st *State) *Term {
	if st.Spec {
		// only occurs in typing side-facts, which are dropped for spec bodies
		return Sym("hp.$alloc", SInt)
	}
	a, ok := st.H["$alloc"]
	if !ok {
		a = x.vc.decl("H0.$alloc", SInt)
		x.vc.assumeOnce(iGt(a, IntLit(0)))
		st.H["$alloc"] = a
	}
	return a
}

func (x *Exec) newRef(st *State, hint string) *Term {
	a := x.alloc(st)
	r := x.vc.define(fmt.Sprintf("ref.%s", hint), a)
	st.H["$alloc"] = iAdd(a, IntLit(1))
	return r
}

func nestedSelect(arr *Term, idx []*Term) *Term {
	t := arr
	for _, i := range idx {
		t = Select(t, i)
	}
	return t
}

func nestedStore(arr *Term, idx []*Term, v *Term) *Term {
	if len(idx) == 0 {
		return v
	}
	if len(idx) == 1 {
		return Store(arr, idx[0], v)
	}
	return Store(arr, idx[0], nestedStore(Select(arr, idx[0]), idx[1:], v))
}

func (l *Loc) indices() []*Term {
	return append([]*Term{l.Root}, l.Elems...)
}

func (x *Exec) zeroValue(t types.Type) Value {
	m := x.m()
	switch kindOf(t) {
	case KScalar:
		if it, ok := intTyOf(t); ok {
			return Value{T: t, K: KScalar, X: m.lit(big.NewInt(0), it)}
		}
		return Value{T: t, K: KScalar, X: TFalse}
	case KPtr:
		pt := t.Underlying().(*types.Pointer).Elem()
		return Value{T: t, K: KPtr, Loc: &Loc{Prefix: canonPrefix(pt), Root: nilRef, T: pt}}
	case KSlice:
		e := t.Underlying().(*types.Slice).Elem()
		return Value{T: t, K: KSlice, Loc: &Loc{Prefix: "Mem." + typeKey(e), Root: nilRef, T: e}, Off: m.ix(0), Len: m.ix(0), Cap: m.ix(0)}
	case KString:
		return Value{T: t, K: KString, X: x.constArray(SArr(m.ixSort(), m.intSort(IntTy{8, false})), m.lit(big.NewInt(0), IntTy{8, false})), Len: m.ix(0)}
	case KStruct:
		st := t.Underlying().(*types.Struct)
		v := Value{T: t, K: KStruct}
		for i := 0; i < st.NumFields(); i++ {
			v.Fields = append(v.Fields, x.zeroValue(st.Field(i).Type()))
		}
		return v
	case KArray:
		a := t.Underlying().(*types.Array)
		ez := x.zeroValue(a.Elem())
		if ez.K == KStruct || ez.K == KSlice || ez.K == KString || ez.K == KArray {
			unsupported("zero value of array of composites %s", t)
		}
		return Value{T: t, K: KArray, X: x.constArray(m.leafSort(t), ez.leaves(m)[0])}
	case KMap, KIface, KFunc:
		return Value{T: t, K: kindOf(t), X: nilRef}
	case KTuple:
		tt := t.(*types.Tuple)
		v := Value{T: t, K: KTuple}
		for i := 0; i < tt.Len(); i++ {
			v.Fields = append(v.Fields, x.zeroValue(tt.At(i).Type()))
		}
		return v
	}
	return Value{T: t, K: KUnknown, X: x.vc.fresh("unk", "U")}
}

func (x *Exec) constArray(sort string, v *Term) *Term {
	return App("(as const "+sort+")", sort, v)
}

// havocValue creates an unconstrained value of type t (with type invariants assumed).
func (x *Exec) havocValue(st *State, t types.Type, hint string) Value {
	m := x.m()
	if kindOf(t) == KTuple {
		tt := t.(*types.Tuple)
		v := Value{T: t, K: KTuple}
		for i := 0; i < tt.Len(); i++ {
			v.Fields = append(v.Fields, x.havocValue(st, tt.At(i).Type(), fmt.Sprintf("%s.%d", hint, i)))
		}
		return v
	}
	if kindOf(t) == KArray {
		a := t.Underlying().(*types.Array)
		if k := kindOf(a.Elem()); !(k == KScalar || k == KPtr || k == KMap || k == KIface) {
			unsupported("havoc of array of composites %s", t)
		}
	}
	var ls []*Term
	for _, l := range m.flatten(t) {
		ls = append(ls, x.vc.fresh(hint+l.Suffix, l.Sort))
	}
	v, _ := m.fromLeaves(t, ls)
	x.assumeTypeInv(st, v)
	return v
}

// assumeTypeInv assumes the representation invariants of a freshly obtained value.
func (x *Exec) assumeTypeInv(st *State, v Value) {
	m := x.m()
	switch v.K {
	case KScalar:
		if it, ok := intTyOf(v.T); ok {
			x.vc.assumeOnce(m.inRange(v.X, it))
		}
	case KStruct, KTuple:
		for _, f := range v.Fields {
			x.assumeTypeInv(st, f)
		}
	case KSlice:
		ix := IntTy{64, true}
		zero := m.ix(0)
		x.vc.assumeOnce(And(
			m.cmp(token.LEQ, zero, v.Off, ix), m.cmp(token.LEQ, zero, v.Len, ix),
			m.cmp(token.LEQ, v.Len, v.Cap, ix),
			m.cmp(token.LEQ, v.Cap, m.lit(pow2(56), ix), ix),
			m.cmp(token.LEQ, v.Off, m.lit(pow2(56), ix), ix),
			iLe(IntLit(0), v.Loc.Root), iLt(v.Loc.Root, x.alloc(st)),
			Implies(Eq(v.Loc.Root, nilRef), Eq(v.Cap, zero)),
		))
		if x.m() == ModeInt {
			if it, ok := intTyOf(v.Loc.T); ok && false {
				_ = it
			}
		}
	case KString:
		ix := IntTy{64, true}
		x.vc.assumeOnce(And(m.cmp(token.LEQ, m.ix(0), v.Len, ix), m.cmp(token.LEQ, v.Len, m.lit(pow2(56), ix), ix)))
	case KPtr:
		x.vc.assumeOnce(And(iLe(IntLit(0), v.Loc.Root), iLt(v.Loc.Root, x.alloc(st))))
		// typed heap: a non-nil *T (T a struct) refers to an object allocated as a T
		if v.isCanonical() && !st.Spec {
			if _, ok := v.Loc.T.Underlying().(*types.Struct); ok {
				x.vc.assumeOnce(Or(Eq(v.Loc.Root, nilRef), Select(x.isType(st, v.Loc.T), v.Loc.Root)))
			}
		}
	case KMap, KIface:
		x.vc.assumeOnce(And(iLe(IntLit(0), v.X), iLt(v.X, x.alloc(st))))
	}
}

func (x *Exec) loadLoc(st *State, l *Loc) Value {
	return x.loadLocT(st, l, l.T)
}

func (x *Exec) loadLocT(st *State, l *Loc, t types.Type) Value {
	m := x.m()
	if l.Off != nil {
		unsupported("whole-array access through an offset array pointer")
	}
	if kindOf(t) == KArray {
		a := t.Underlying().(*types.Array)
		if k := kindOf(a.Elem()); !(k == KScalar || k == KPtr || k == KMap || k == KIface) {
			unsupported("load of array of composites %s", t)
		}
	}
	idx := l.indices()
	var ls []*Term
	for _, lf := range m.flatten(t) {
		if x.taint[l.Prefix+lf.Suffix] {
			unsupported("read of a component that was assigned an interior pointer (%s)", l.Prefix+lf.Suffix)
		}
		c := x.comp(st, l.Prefix+lf.Suffix, x.compSortFor(lf.Sort, len(l.Elems)))
		ls = append(ls, nestedSelect(c, idx))
	}
	v, _ := m.fromLeaves(t, ls)
	x.assumeLoaded(st, v)
	return v
}

// assumeLoaded: heap cells hold well-typed values.
func (x *Exec) assumeLoaded(st *State, v Value) {
	switch v.K {
	case KArray:
		return
	}
	x.assumeTypeInv(st, v)
}

func (x *Exec) storeLoc(st *State, l *Loc, v Value) {
	m := x.m()
	if l.Off != nil {
		unsupported("whole-array store through an offset array pointer")
	}
	if !v.isCanonical() {
		if v.K == KPtr && x.top != nil && x.top.fc != nil && x.top.fc.Partial {
			// partial mode: the cell receives an unknown value and the component is tainted - the engine
			// cannot represent a pointer into the middle of an object in memory, so nothing may be
			// concluded from reading this component afterwards (any such read abandons the path), but
			// code that only builds the collection can be followed further
			if x.taint == nil {
				x.taint = map[string]bool{}
			}
			for _, lf := range m.flatten(l.T) {
				x.taint[l.Prefix+lf.Suffix] = true
			}
			x.note("abstracted (partial mode): an interior pointer stored into " + l.Prefix + " is replaced by an unknown value; reads of that component abandon the path")
			v = x.havocValue(st, l.T, "interior")
		} else {
			unsupported("storing a non-canonical pointer/slice (interior pointer) into the heap")
		}
	}
	idx := l.indices()
	lfs := m.flatten(l.T)
	ls := v.leaves(m)
	if len(lfs) != len(ls) {
		unsupported("store: leaf count mismatch for %s (%d vs %d)", l.T, len(lfs), len(ls))
	}
	for i, lf := range lfs {
		name := l.Prefix + lf.Suffix
		c := x.comp(st, name, x.compSortFor(lf.Sort, len(l.Elems)))
		st.H[name] = nestedStore(c, idx, ls[i])
	}
}

// ---- naming helper: define leaves of a value

func (x *Exec) nameValue(fr *Frame, name string, v Value) Value {
	switch v.K {
	case KScalar, KArray, KMap, KUnknown:
		if v.X != nil {
			v.X = x.vc.define(name, v.X)
		}
	case KIface:
		v.X = x.vc.define(name, v.X)
	case KString:
		v.X = x.vc.define(name+".str", v.X)
		v.Len = x.vc.define(name+".len", v.Len)
	case KPtr:
		l := *v.Loc
		l.Root = x.vc.define(name, l.Root)
		for i := range l.Elems {
			l.Elems = append([]*Term{}, l.Elems...)
			l.Elems[i] = x.vc.define(fmt.Sprintf("%s.i%d", name, i), l.Elems[i])
		}
		v.Loc = &l
	case KSlice:
		l := *v.Loc
		l.Root = x.vc.define(name+".arr", l.Root)
		v.Loc = &l
		v.Off = x.vc.define(name+".off", v.Off)
		v.Len = x.vc.define(name+".len", v.Len)
		v.Cap = x.vc.define(name+".cap", v.Cap)
	case KStruct, KTuple:
		fs := make([]Value, len(v.Fields))
		for i, f := range v.Fields {
			fs[i] = x.nameValue(fr, fmt.Sprintf("%s.%d", name, i), f)
		}
		v.Fields = fs
	}
	return v
}

// ---- merging values

func (x *Exec) mergeValues(c *Term, a, b Value) Value {
	if a.K != b.K {
		if a.K == KUnknown {
			return a
		}
		if b.K == KUnknown {
			return b
		}
		unsupported("merging values of different kinds (%v vs %v)", a.K, b.K)
	}
	r := a
	switch a.K {
	case KScalar, KArray, KMap, KUnknown:
		if a.X.S != b.X.S {
			unsupported("merging values of different sorts")
		}
		r.X = Ite(c, a.X, b.X)
	case KIface:
		r.X = Ite(c, a.X, b.X)
		if a.Dyn != b.Dyn {
			r.Dyn = nil
		}
	case KFunc:
		if a.Fn != b.Fn {
			r.Fn = nil
			r.Binds = nil
			ax, bx := a.X, b.X
			if ax == nil {
				ax = nilRef
			}
			if bx == nil {
				bx = nilRef
			}
			r.X = Ite(c, ax, bx)
		}
	case KString:
		r.X = Ite(c, a.X, b.X)
		r.Len = Ite(c, a.Len, b.Len)
	case KPtr:
		al, bl := a.Loc, b.Loc
		// nil pointers adapt to the other side's prefix
		if al.Prefix != bl.Prefix || len(al.Elems) != len(bl.Elems) || (al.Off == nil) != (bl.Off == nil) {
			if isNilLit(al.Root) {
				al = &Loc{Prefix: bl.Prefix, Root: nilRef, Elems: bl.Elems, T: bl.T, Off: bl.Off}
			} else if isNilLit(bl.Root) {
				bl = &Loc{Prefix: al.Prefix, Root: nilRef, Elems: al.Elems, T: al.T, Off: al.Off}
			} else {
				unsupported("merging pointers into different storage (%s vs %s)", al.Prefix, bl.Prefix)
			}
		}
		l := &Loc{Prefix: al.Prefix, T: al.T, Root: Ite(c, al.Root, bl.Root)}
		for i := range al.Elems {
			l.Elems = append(l.Elems, Ite(c, al.Elems[i], bl.Elems[i]))
		}
		if al.Off != nil {
			l.Off = Ite(c, al.Off, bl.Off)
		}
		r.Loc = l
	case KSlice:
		al, bl := a.Loc, b.Loc
		if al.Prefix != bl.Prefix || len(al.Elems) != len(bl.Elems) {
			if isNilLit(al.Root) {
				al = &Loc{Prefix: bl.Prefix, Root: nilRef, Elems: bl.Elems, T: bl.T}
			} else if isNilLit(bl.Root) {
				bl = &Loc{Prefix: al.Prefix, Root: nilRef, Elems: al.Elems, T: al.T}
			} else {
				unsupported("merging slices over different storage (%s vs %s)", al.Prefix, bl.Prefix)
			}
		}
		l := &Loc{Prefix: al.Prefix, T: al.T, Root: Ite(c, al.Root, bl.Root)}
		for i := range al.Elems {
			l.Elems = append(l.Elems, Ite(c, al.Elems[i], bl.Elems[i]))
		}
		r.Loc = l
		r.Off = Ite(c, a.Off, b.Off)
		r.Len = Ite(c, a.Len, b.Len)
		r.Cap = Ite(c, a.Cap, b.Cap)
	case KStruct, KTuple:
		fs := make([]Value, len(a.Fields))
		for i := range a.Fields {
			fs[i] = x.mergeValues(c, a.Fields[i], b.Fields[i])
		}
		r.Fields = fs
	}
	return r
}

func isNilLit(t *Term) bool {
	v, ok := litValue(t)
	return ok && v.Sign() == 0
}

func (x *Exec) mergeStates(name string, ins []State) State {
	if len(ins) == 1 {
		return ins[0].clone()
	}
	out := State{H: map[string]*Term{}}
	var rs []*Term
	for _, s := range ins {
		rs = append(rs, s.Reach)
	}
	out.Reach = Or(rs...)
	keys := map[string]bool{}
	for _, s := range ins {
		for k := range s.H {
			keys[k] = true
		}
	}
	for _, k := range sortedKeys(keys) {
		var cur *Term
		same := true
		for _, s := range ins {
			t, ok := s.H[k]
			if !ok {
				// component first touched on another path: its initial value
				var sortT string
				for _, s2 := range ins {
					if t2, ok := s2.H[k]; ok {
						sortT = t2.S
					}
				}
				if k == "$alloc" {
					t = x.alloc(&State{H: map[string]*Term{}})
				} else {
					t = x.vc.decl("H0."+k, sortT)
				}
			}
			if cur == nil {
				cur = t
			} else if !termEqual(cur, t) {
				same = false
			}
		}
		if same {
			out.H[k] = cur
			continue
		}
		// ite chain (edges are mutually exclusive)
		var m *Term
		for i := len(ins) - 1; i >= 0; i-- {
			t, ok := ins[i].H[k]
			if !ok {
				if k == "$alloc" {
					t = x.alloc(&State{H: map[string]*Term{}})
				} else {
					t = x.vc.decl("H0."+k, cur.S)
				}
			}
			if m == nil {
				m = t
			} else {
				m = Ite(ins[i].Reach, t, m)
			}
		}
		out.H[k] = x.vc.define(fmt.Sprintf("H.%s@%s", k, name), m)
	}
	return out
}

// ---- loops

func findLoops(fn *ssa.Function) map[*ssa.BasicBlock]*LoopInfo {
	loops := map[*ssa.BasicBlock]*LoopInfo{}
	for _, b := range fn.Blocks {
		for _, s := range b.Succs {
			if s.Dominates(b) { // back edge b -> s
				li := loops[s]
				if li == nil {
					li = &LoopInfo{Header: s, Body: map[*ssa.BasicBlock]bool{s: true}}
					loops[s] = li
				}
				li.Back = append(li.Back, b)
				// natural loop: nodes reaching b without passing s
				var stack []*ssa.BasicBlock
				if !li.Body[b] {
					li.Body[b] = true
					stack = append(stack, b)
				}
				for len(stack) > 0 {
					n := stack[len(stack)-1]
					stack = stack[:len(stack)-1]
					for _, p := range n.Preds {
						if !li.Body[p] {
							li.Body[p] = true
							stack = append(stack, p)
						}
					}
				}
			}
		}
	}
	var hs []*ssa.BasicBlock
	for h := range loops {
		hs = append(hs, h)
	}
	sort.Slice(hs, func(i, j int) bool { return hs[i].Index < hs[j].Index })
	for i, h := range hs {
		loops[h].Ordinal = i + 1
	}
	return loops
}

func isBackEdge(from, to *ssa.BasicBlock) bool { return to.Dominates(from) }

// topological order of blocks ignoring back edges
func topoOrder(fn *ssa.Function) []*ssa.BasicBlock {
	var order []*ssa.BasicBlock
	seen := map[*ssa.BasicBlock]bool{}
	var dfs func(b *ssa.BasicBlock)
	dfs = func(b *ssa.BasicBlock) {
		seen[b] = true
		for i := len(b.Succs) - 1; i >= 0; i-- {
			s := b.Succs[i]
			if !seen[s] && !isBackEdge(b, s) {
				dfs(s)
			}
		}
		order = append(order, b)
	}
	if len(fn.Blocks) > 0 {
		dfs(fn.Blocks[0])
	}
	for i, j := 0, len(order)-1; i < j; i, j = i+1, j-1 {
		order[i], order[j] = order[j], order[i]
	}
	return order
}

// ---- function body execution

func (x *Exec) posOf(fn *ssa.Function, p token.Pos) token.Position {
	if !p.IsValid() {
		p = fn.Pos()
	}
	return fn.Prog.Fset.Position(p)
}

// check emits a safety obligation (if the top function demands nopanic) and then assumes it.
func (x *Exec) check(fr *Frame, st *State, kind string, cond *Term, pos token.Pos, desc string) {
	if isTrue(cond) {
		return
	}
	if fr.top.nopanic {
		x.vc.oblige(kind, Implies(st.Reach, cond), x.posOf(fr.fn, pos), desc)
	}
	x.vc.assume(Implies(st.Reach, cond))
}

func (x *Exec) get(fr *Frame, st *State, v ssa.Value) Value {
	switch c := v.(type) {
	case *ssa.Const:
		return x.constValue(st, c)
	case *ssa.Function:
		return Value{T: c.Type(), K: KFunc, Fn: c, X: IntLit(1)}
	case *ssa.Global:
		// address of a package-level variable
		pt := c.Type().Underlying().(*types.Pointer).Elem()
		name := "G." + c.Pkg.Pkg.Name() + "." + c.Name()
		// package-level variables are distinct objects: give each a distinct small literal reference
		if x.vc.globalRefs == nil {
			x.vc.globalRefs = map[string]int64{}
		}
		id, ok := x.vc.globalRefs[name]
		if !ok {
			id = int64(len(x.vc.globalRefs) + 1)
			x.vc.globalRefs[name] = id
		}
		root := x.vc.define(name, IntLit(id))
		root = IntLit(id)
		x.vc.assumeOnce(iLt(IntLit(100000), x.vc.decl("H0.$alloc", SInt)))
		x.alloc(st)
		return Value{T: c.Type(), K: KPtr, Loc: &Loc{Prefix: canonPrefix(pt), Root: root, T: pt}}
	case *ssa.Builtin:
		return Value{T: c.Type(), K: KFunc}
	}
	val, ok := fr.env[v]
	if !ok {
		unsupported("use of undefined SSA value %s (%T) in %s", v.Name(), v, fr.fn.Name())
	}
	return val
}

func (x *Exec) constValue(st *State, c *ssa.Const) Value {
	m := x.m()
	t := c.Type()
	if c.Value == nil {
		return x.zeroValue(t)
	}
	switch kindOf(t) {
	case KScalar:
		if it, ok := intTyOf(t); ok {
			v, _ := new(big.Int).SetString(constant.ToInt(c.Value).ExactString(), 10)
			return Value{T: t, K: KScalar, X: m.lit(v, it)}
		}
		return Value{T: t, K: KScalar, X: BoolLit(constant.BoolVal(c.Value))}
	case KString:
		s := constant.StringVal(c.Value)
		return x.stringConst(t, s)
	}
	return Value{T: t, K: KUnknown, X: x.vc.fresh("const", "U")}
}

func (x *Exec) stringConst(t types.Type, s string) Value {
	m := x.m()
	bs := IntTy{8, false}
	sortA := SArr(m.ixSort(), m.intSort(bs))
	if len(s) > 256 {
		return Value{T: t, K: KString, X: x.vc.fresh("strconst", sortA), Len: m.ix(int64(len(s)))}
	}
	arr := x.constArray(sortA, m.lit(big.NewInt(0), bs))
	for i := 0; i < len(s); i++ {
		arr = Store(arr, m.ix(int64(i)), m.lit(big.NewInt(int64(s[i])), bs))
	}
	name := fmt.Sprintf("str.%x", s)
	if len(name) > 40 {
		name = name[:40]
	}
	return Value{T: t, K: KString, X: x.vc.define(name, arr), Len: m.ix(int64(len(s)))}
}

// edgeCond: condition under which control flows from b to its i-th successor.
func (x *Exec) edgeCond(fr *Frame, st *State, b *ssa.BasicBlock, i int) *Term {
	switch t := b.Instrs[len(b.Instrs)-1].(type) {
	case *ssa.If:
		c := x.get(fr, st, t.Cond).X
		if i == 0 {
			return c
		}
		return Not(c)
	case *ssa.Jump:
		return TTrue
	}
	return TTrue
}

func (x *Exec) execBody(fr *Frame, st State) {
	fn := fr.fn
	fr.loops = findLoops(fn)
	fr.edge = map[[2]int]State{}
	fr.done = map[int]State{}
	order := topoOrder(fn)
	for _, b := range order {
		var cur State
		li := fr.loops[b]
		if b.Index == 0 {
			cur = st.clone()
		} else {
			var ins []State
			var inPreds []*ssa.BasicBlock
			for _, p := range b.Preds {
				if isBackEdge(p, b) {
					continue
				}
				es, ok := fr.edge[[2]int{p.Index, b.Index}]
				if !ok {
					continue // unreachable predecessor
				}
				ins = append(ins, es)
				inPreds = append(inPreds, p)
			}
			if len(ins) == 0 {
				continue
			}
			cur = x.mergeStates(fmt.Sprintf("f%d.b%d", fr.id, b.Index), ins)
			cur.Reach = x.vc.define(fmt.Sprintf("R.f%d.b%d", fr.id, b.Index), cur.Reach)
			// phis
			for _, ins_ := range b.Instrs {
				phi, ok := ins_.(*ssa.Phi)
				if !ok {
					break
				}
				var val Value
				first := true
				for k := len(inPreds) - 1; k >= 0; k-- {
					p := inPreds[k]
					var e ssa.Value
					for pi, pp := range b.Preds {
						if pp == p {
							e = phi.Edges[pi]
						}
					}
					es := ins[k]
					ev := x.get(fr, &es, e)
					if first {
						val = ev
						first = false
					} else {
						val = x.mergeValues(es.Reach, ev, val)
					}
				}
				val.T = phi.Type()
				fr.env[phi] = x.nameValue(fr, fmt.Sprintf("f%d.%s", fr.id, phi.Name()), val)
			}
		}
		if li != nil {
			x.enterLoop(fr, li, &cur)
		}
		x.execBlock(fr, b, &cur)
	}
}

// loopModified computes the heap components that may be written inside a loop.
func (x *Exec) loopModified(fr *Frame, li *LoopInfo) (prefixes map[string]bool, all bool) {
	prefixes = map[string]bool{}
	for b := range li.Body {
		for _, ins := range b.Instrs {
			switch i := ins.(type) {
			case *ssa.Store:
				prefixes[staticPrefix(i.Addr)] = true
			case *ssa.MapUpdate:
				prefixes["Map."] = true
			case *ssa.Call:
				mc := x.calleeModSet(fr, i.Common())
				if mc.all {
					all = true
				}
				for p := range mc.prefixes {
					prefixes[p] = true
				}
				if mc.allocs {
					prefixes["$alloc"] = true
				}
			case *ssa.Alloc:
				prefixes["$alloc"] = true
				prefixes[canonPrefix(i.Type().Underlying().(*types.Pointer).Elem())] = true
				prefixes[isTypeComp(i.Type().Underlying().(*types.Pointer).Elem())] = true
			case *ssa.MakeSlice:
				prefixes["$alloc"] = true
				prefixes["Mem."+typeKey(i.Type().Underlying().(*types.Slice).Elem())] = true
			case *ssa.MakeMap, *ssa.MakeInterface, *ssa.MakeClosure:
				prefixes["$alloc"] = true
			case *ssa.Defer, *ssa.Go:
				all = true
			}
		}
	}
	return
}

func prefixMatches(comp string, prefixes map[string]bool) bool {
	for p := range prefixes {
		if comp == p || strings.HasPrefix(comp, p+".") {
			return true
		}
		if (p == "Map." || p == "Ghost." || p == "Mem.") && strings.HasPrefix(comp, p) {
			return true
		}
	}
	return false
}

// staticPrefix mirrors Loc.Prefix computation on the SSA address expression.
func staticPrefix(addr ssa.Value) string {
	switch a := addr.(type) {
	case *ssa.FieldAddr:
		st := a.X.Type().Underlying().(*types.Pointer).Elem().Underlying().(*types.Struct)
		return staticPointeePrefix(a.X) + "." + st.Field(a.Field).Name()
	case *ssa.IndexAddr:
		switch u := a.X.Type().Underlying().(type) {
		case *types.Slice:
			return staticSlicePrefix(a.X)
		case *types.Pointer:
			_ = u
			return staticPointeePrefix(a.X)
		}
	}
	return canonPrefix(addr.Type().Underlying().(*types.Pointer).Elem())
}

func staticPointeePrefix(p ssa.Value) string {
	switch a := p.(type) {
	case *ssa.FieldAddr, *ssa.IndexAddr:
		return staticPrefix(a)
	case *ssa.Phi:
		// assume canonical
	}
	return canonPrefix(p.Type().Underlying().(*types.Pointer).Elem())
}

func staticSlicePrefix(s ssa.Value) string {
	switch a := s.(type) {
	case *ssa.Slice:
		switch a.X.Type().Underlying().(type) {
		case *types.Slice:
			return staticSlicePrefix(a.X)
		case *types.Pointer:
			return staticPointeePrefix(a.X)
		}
	}
	return "Mem." + typeKey(s.Type().Underlying().(*types.Slice).Elem())
}

func (x *Exec) enterLoop(fr *Frame, li *LoopInfo, cur *State) {
	var spec *LoopSpec
	if fr.fc != nil {
		spec = fr.fc.Loops[li.Ordinal]
	}
	if spec == nil {
		if fr.top.fc == nil || !fr.top.fc.Partial {
			unsupported("loop %d of %s has no invariant", li.Ordinal, fr.fn.Name())
		}
		// partial mode: the trivial invariant (everything the loop may write is havocked)
		spec = &LoopSpec{}
	}
	b := li.Header
	pos := x.loopPos(fr, li)
	if fr.iter == nil {
		fr.iter = map[int]*Term{}
	}
	fr.iter[li.Ordinal] = IntLit(0)
	// 1. invariant holds on entry
	entryState := cur.clone()
	for k, inv := range spec.Invariants {
		env := x.loopEnv(fr, li, &entryState).asGoal()
		g := env.evalBool(inv.Expr)
		o := x.vc.oblige(fmt.Sprintf("inv.%d.init", li.Ordinal), Implies(entryState.Reach, g), pos, fmt.Sprintf("loop %d invariant %d holds on entry: %s", li.Ordinal, k+1, inv.Src))
		o.Clause = inv.Src
		o.Slow = inv.Slow
	}
	// 2. havoc loop-carried state
	itSym := x.vc.fresh(fmt.Sprintf("f%d.iter@L%d", fr.id, li.Ordinal), SInt)
	x.vc.assume(iGe(itSym, IntLit(0)))
	fr.iter[li.Ordinal] = itSym
	prefixes, all := x.loopModified(fr, li)
	entryVals := map[*ssa.Phi]Value{}
	for _, ins := range b.Instrs {
		phi, ok := ins.(*ssa.Phi)
		if !ok {
			break
		}
		old := fr.env[phi]
		entryVals[phi] = old
		nv := x.havocLike(cur, old, fmt.Sprintf("f%d.%s@L%d", fr.id, phi.Name(), li.Ordinal))
		fr.env[phi] = nv
	}
	for _, k := range sortedKeys(cur.H) {
		if strings.HasPrefix(k, "Lock.") && !prefixMatches(k, prefixes) {
			continue
		}
		if all || prefixMatches(k, prefixes) || k == "$alloc" && prefixes["$alloc"] {
			old := cur.H[k]
			nw := x.vc.fresh(fmt.Sprintf("H.%s@L%d", k, li.Ordinal), old.S)
			x.keepMonotone(k, old, nw)
			if k == "$alloc" {
				x.vc.assume(iGe(nw, old))
			} else if !all {
				// point-havoc when every store in the loop goes through loop-invariant roots
				if roots, ranges, ok := x.loopStoreRoots(fr, li, k); ok {
					t := old
					for ri, r := range roots {
						t = Store(t, r, Select(nw, r))
						// a store through a slice defined outside the loop stays within [off, off+cap)
						if rg := ranges[ri]; rg != nil {
							if _, inner, _ := arrSorts(old.S); strings.HasPrefix(inner, "(Array") {
								m := x.m()
								ixT := IntTy{64, true}
								kv := fmt.Sprintf("k!%d", x.vc.nfresh)
								x.vc.nfresh++
								ks := Sym(kv, m.ixSort())
								x.vc.assume(Forall([][2]string{{kv, m.ixSort()}}, Implies(Or(m.cmp(token.LSS, ks, rg[0], ixT), m.cmp(token.GEQ, ks, rg[1], ixT)),
									Eq(Select(Select(nw, r), ks), Select(Select(old, r), ks)))))
							}
						}
					}
					// objects allocated inside the loop may also be written
					if prefixes["$alloc"] {
						a0 := x.alloc(&entryState)
						rv := fmt.Sprintf("r!%d", x.vc.nfresh)
						rs := Sym(rv, refSort)
						var notRoot []*Term
						for _, r := range roots {
							notRoot = append(notRoot, Not(Eq(rs, r)))
						}
						x.vc.assume(Forall([][2]string{{rv, refSort}}, Implies(And(append(notRoot, iLt(rs, a0))...), Eq(Select(nw, rs), Select(old, rs)))))
					} else {
						nw = x.vc.define(fmt.Sprintf("H.%s@L%d.pt", k, li.Ordinal), t)
					}
				} else if prefixes["$alloc"] || true {
					_ = 0
				}
			}
			cur.H[k] = nw
		}
	}
	// 2b. loop frame: a function with a declared frame keeps every location outside it unchanged at
	// every loop head (checked on entry and on the back edges as inv.k.frame, assumed here)
	if x.loopFrameApplies(fr) {
		fenv := x.entryEnv(fr, &fr.entry)
		for _, fg := range x.frameGoals(fr, fenv, &entryState) {
			o := x.vc.oblige(fmt.Sprintf("inv.%d.frame.init", li.Ordinal), Implies(entryState.Reach, fg.goal), pos, fmt.Sprintf("loop %d is entered with only the declared frame modified: component %s", li.Ordinal, fg.comp))
			o.Clause = "modifies (component " + fg.comp + ")"
		}
		for _, fg := range x.frameGoals(fr, fenv, cur) {
			x.vc.assume(Implies(cur.Reach, fg.goal))
		}
	}
	// 3. assume invariants (derived counting-loop facts first; they are checked on the back edges like the rest)
	if fr.autoInv == nil {
		fr.autoInv = map[*LoopInfo][]*autoInv{}
	}
	fr.autoInv[li] = x.findAutoInvs(fr, li, entryVals)
	for _, a := range fr.autoInv[li] {
		x.vc.assume(Implies(cur.Reach, a.term(x, fr, cur)))
	}
	for _, inv := range spec.Invariants {
		env := x.loopEnv(fr, li, cur)
		x.vc.assume(Implies(cur.Reach, env.evalBool(inv.Expr)))
	}
	for _, us := range spec.Uses {
		env := x.loopEnv(fr, li, cur)
		x.vc.assume(Implies(cur.Reach, x.lemmaInstance(env, us)))
	}
	fr.loopHead[li] = cur.clone()
	if spec.Decreases != nil {
		env := x.loopEnv(fr, li, cur)
		v := env.eval(spec.Decreases.Expr)
		fr.loopVariant[li] = x.vc.define(fmt.Sprintf("f%d.variant@L%d", fr.id, li.Ordinal), v.X)
	}
}

func cloneKeys(m map[string]*Term) map[string]bool {
	out := map[string]bool{}
	for k := range m {
		out[k] = true
	}
	return out
}

type pendingHavoc struct {
	li       *LoopInfo
	prefixes map[string]bool
	all      bool
	seen     map[string]bool
}

// loopStoreRoots returns the root refs of all stores into component k inside the loop when all are
// loop-invariant SSA values; ok=false otherwise.
func (x *Exec) loopStoreRoots(fr *Frame, li *LoopInfo, comp string) ([]*Term, []*[2]*Term, bool) {
	var roots []*Term
	var ranges []*[2]*Term
	for b := range li.Body {
		for _, ins := range b.Instrs {
			switch i := ins.(type) {
			case *ssa.Store:
				p := staticPrefix(i.Addr)
				if !(comp == p || strings.HasPrefix(comp, p+".")) {
					continue
				}
				rv := rootValue(i.Addr)
				if rv == nil {
					return nil, nil, false
				}
				if ins2, ok := rv.(ssa.Instruction); ok && li.Body[ins2.Block()] {
					return nil, nil, false
				}
				v, ok := fr.env[rv]
				if !ok {
					return nil, nil, false
				}
				switch v.K {
				case KPtr:
					roots = append(roots, v.Loc.Root)
					ranges = append(ranges, nil)
				case KSlice:
					roots = append(roots, v.Loc.Root)
					if len(v.Loc.Elems) == 0 {
						ext := v.Len // indexing is checked against len; only reslicing reaches cap
						for a := i.Addr; a != rv; {
							switch aa := a.(type) {
							case *ssa.FieldAddr:
								a = aa.X
							case *ssa.IndexAddr:
								a = aa.X
							case *ssa.Slice:
								ext = v.Cap
								a = aa.X
							default:
								a = rv
							}
						}
						ranges = append(ranges, &[2]*Term{v.Off, x.ixAdd(v.Off, ext)})
					} else {
						ranges = append(ranges, nil)
					}
				default:
					return nil, nil, false
				}
			case *ssa.Call:
				mc := x.calleeModSet(fr, i.Common())
				if mc.all || prefixMatches(comp, mc.prefixes) {
					// a callee that writes only fields of an object allocated inside this loop
					// (modifies p.f with p bound to a loop-fresh value) leaves older objects alone
					if !mc.all && x.callWritesOnlyLoopFresh(fr, li, i.Common(), comp) {
						continue
					}
					return nil, nil, false
				}
			case *ssa.MapUpdate:
				if strings.HasPrefix(comp, "Map.") {
					// only the updated map object changes when the map is fixed across the loop
					if !strings.HasPrefix(comp, "Map."+typeKey(i.Map.Type().Underlying().(*types.Map))+".") {
						continue
					}
					if ins2, ok := i.Map.(ssa.Instruction); ok && li.Body[ins2.Block()] {
						return nil, nil, false
					}
					mv, ok := fr.env[i.Map]
					if !ok || mv.K != KMap {
						return nil, nil, false
					}
					roots = append(roots, mv.X)
					ranges = append(ranges, nil)
				}
			}
		}
	}
	return roots, ranges, true
}

// callWritesOnlyLoopFresh: the static callee has a contract, each of its modifies designators that
// touches comp is a field path rooted at a parameter, and the actual for that parameter is a pointer
// created inside the loop body (heap Alloc, or the result of a call whose contract ensures
// fresh(result)). Such writes are covered by the "objects allocated inside the loop" clause.
func (x *Exec) callWritesOnlyLoopFresh(fr *Frame, li *LoopInfo, c *ssa.CallCommon, comp string) bool {
	callee := c.StaticCallee()
	if callee == nil {
		return false
	}
	fc, _ := x.vc.uni.contractFor(callee)
	if fc == nil || fc.ModAll || fc.Inline {
		return false
	}
	ptypes := map[string]types.Type{}
	pidx := map[string]int{}
	for k, p := range callee.Params {
		ptypes[p.Name()] = p.Type()
		pidx[p.Name()] = k
	}
	for _, me := range fc.Modifies {
		pre, ok := staticCEPrefix(me, ptypes)
		if !ok {
			return false
		}
		if !(comp == pre || strings.HasPrefix(comp, pre+".") || strings.HasPrefix(pre, comp+".")) {
			continue
		}
		root := me
		for root.Kind == "field" && len(root.Args) > 0 {
			root = root.Args[0]
		}
		if root.Kind != "id" || me.Kind != "field" {
			return false
		}
		k, ok := pidx[root.Name]
		if !ok || k >= len(c.Args) {
			return false
		}
		if !x.loopFreshValue(li, c.Args[k]) {
			return false
		}
	}
	return true
}

func (x *Exec) loopFreshValue(li *LoopInfo, v ssa.Value) bool {
	ins, ok := v.(ssa.Instruction)
	if !ok || !li.Body[ins.Block()] {
		return false
	}
	switch i := v.(type) {
	case *ssa.Alloc:
		return i.Heap
	case *ssa.Call:
		callee := i.Common().StaticCallee()
		if callee == nil {
			return false
		}
		fc, _ := x.vc.uni.contractFor(callee)
		if fc == nil {
			return false
		}
		for _, en := range fc.Ensures {
			if ceMentionsFreshResult(en.Expr) {
				return true
			}
		}
	}
	return false
}

// fresh(result) as a top-level conjunct of an unconditional postcondition
func ceMentionsFreshResult(e *CE) bool {
	if e == nil {
		return false
	}
	if e.Kind == "bin" && e.Name == "&&" || e.Kind == "&&" {
		for _, a := range e.Args {
			if ceMentionsFreshResult(a) {
				return true
			}
		}
		return false
	}
	if e.Kind == "call" && e.Name == "fresh" && len(e.Args) == 1 && e.Args[0].Kind == "id" && e.Args[0].Name == "result" {
		return true
	}
	return false
}

// loopFrameApplies: the function under verification declares a frame (no "modifies *", not a package
// initialiser), so "nothing outside the frame changed since entry" is an invariant of each of its loops.
func (x *Exec) loopFrameApplies(fr *Frame) bool {
	if fr != fr.top || fr.fc == nil || fr.fc.ModAll {
		return false
	}
	if fr.fn.Name() == "init" && fr.fn.Synthetic != "" {
		return false
	}
	return true
}

// rootValue walks an address expression to the SSA value providing the root reference.
func rootValue(addr ssa.Value) ssa.Value {
	for {
		switch a := addr.(type) {
		case *ssa.FieldAddr:
			addr = a.X
		case *ssa.IndexAddr:
			addr = a.X
		case *ssa.Slice:
			addr = a.X
		default:
			return addr
		}
	}
}

func (x *Exec) havocLike(st *State, old Value, hint string) Value {
	v := x.havocValue(st, old.T, hint)
	// keep static storage prefix of non-canonical pointers/slices
	if (old.K == KPtr || old.K == KSlice) && !old.isCanonical() {
		l := *old.Loc
		l.Root = v.Loc.Root
		if len(l.Elems) > 0 {
			es := make([]*Term, len(l.Elems))
			for i := range es {
				es[i] = x.vc.fresh(hint+".e", x.m().ixSort())
			}
			l.Elems = es
		}
		v.Loc = &l
	}
	if old.K == KFunc {
		v.Fn = old.Fn
		v.Binds = old.Binds
	}
	return v
}

func (x *Exec) loopPos(fr *Frame, li *LoopInfo) token.Position {
	for _, ins := range li.Header.Instrs {
		if ins.Pos().IsValid() {
			return x.posOf(fr.fn, ins.Pos())
		}
	}
	for b := range li.Body {
		for _, ins := range b.Instrs {
			if ins.Pos().IsValid() {
				return x.posOf(fr.fn, ins.Pos())
			}
		}
	}
	return x.posOf(fr.fn, token.NoPos)
}

// closeLoop is called when control reaches a back edge.
func (x *Exec) closeLoop(fr *Frame, li *LoopInfo, from *ssa.BasicBlock, st *State) {
	var spec *LoopSpec
	if fr.fc != nil {
		spec = fr.fc.Loops[li.Ordinal]
	}
	if spec == nil {
		spec = &LoopSpec{}
	}
	pos := x.loopPos(fr, li)
	if fr == fr.top {
		x.backEdgeAsserts(fr, li, from, st)
	}
	// the ghost iteration counter has advanced by one on the back edge
	if it := fr.iter[li.Ordinal]; it != nil {
		fr.iter[li.Ordinal] = iAdd(it, IntLit(1))
		defer func() { fr.iter[li.Ordinal] = it }()
	}
	// bind phis to their back-edge values
	saved := map[ssa.Value]Value{}
	var pi int
	for i, p := range li.Header.Preds {
		if p == from {
			pi = i
		}
	}
	newVals := map[*ssa.Phi]Value{}
	for _, ins := range li.Header.Instrs {
		phi, ok := ins.(*ssa.Phi)
		if !ok {
			break
		}
		newVals[phi] = x.get(fr, st, phi.Edges[pi])
	}
	for phi, nv := range newVals {
		saved[phi] = fr.env[phi]
		nv.T = phi.Type()
		fr.env[phi] = nv
	}
	for _, a := range fr.autoInv[li] {
		o := x.vc.oblige(fmt.Sprintf("inv.%d.auto", li.Ordinal), Implies(st.Reach, a.term(x, fr, st)), pos, fmt.Sprintf("loop %d %s", li.Ordinal, a.describe()))
		o.Clause = a.describe()
	}
	if x.loopFrameApplies(fr) {
		fenv := x.entryEnv(fr, &fr.entry)
		for _, fg := range x.frameGoals(fr, fenv, st) {
			o := x.vc.oblige(fmt.Sprintf("inv.%d.frame", li.Ordinal), Implies(st.Reach, fg.goal), pos, fmt.Sprintf("loop %d body modifies only the declared frame: component %s", li.Ordinal, fg.comp))
			o.Clause = "modifies (component " + fg.comp + ")"
		}
	}
	for k, inv := range spec.Invariants {
		env := x.loopEnv(fr, li, st).asGoal()
		g := env.evalBool(inv.Expr)
		o := x.vc.oblige(fmt.Sprintf("inv.%d.keep", li.Ordinal), Implies(st.Reach, g), pos, fmt.Sprintf("loop %d invariant %d preserved: %s", li.Ordinal, k+1, inv.Src))
		o.Clause = inv.Src
		o.Slow = inv.Slow
	}
	if spec.Decreases != nil {
		env := x.loopEnv(fr, li, st)
		nv := env.eval(spec.Decreases.Expr)
		old := fr.loopVariant[li]
		var g *Term
		if x.m() == ModeBV {
			g = App("bvult", SBool, nv.X, old)
		} else {
			g = And(iLt(nv.X, old), iGe(old, IntLit(0)))
		}
		o := x.vc.oblige(fmt.Sprintf("dec.%d", li.Ordinal), Implies(st.Reach, g), pos, fmt.Sprintf("loop %d variant decreases: %s", li.Ordinal, spec.Decreases.Src))
		o.Clause = spec.Decreases.Src
	}
	for phi, ov := range saved {
		fr.env[phi] = ov
	}
}

func (x *Exec) execBlock(fr *Frame, b *ssa.BasicBlock, st *State) {
	for _, ins := range b.Instrs {
		if _, ok := ins.(*ssa.Phi); ok {
			continue
		}
		if fr == fr.top && fr.fc != nil && fr.fc.Partial {
			// partial mode: a path that reaches an instruction outside the subset is abandoned here; nothing
			// after this point is checked on it, and the place is reported as an unchecked assumption
			if x.execInstrPartial(fr, b, ins, st) {
				return
			}
		} else {
			x.execInstr(fr, b, ins, st)
		}
		switch ins.(type) {
		case *ssa.Store, *ssa.Call, *ssa.MapUpdate, *ssa.Alloc, *ssa.MakeSlice, *ssa.MakeMap, *ssa.MakeInterface, *ssa.MakeClosure, *ssa.Convert, *ssa.RunDefers:
			x.compactHeap(st)
		}
	}
	// record edge states
	last := b.Instrs[len(b.Instrs)-1]
	switch last.(type) {
	case *ssa.If, *ssa.Jump:
		for i, s := range b.Succs {
			c := x.edgeCond(fr, st, b, i)
			es := st.clone()
			es.Reach = And(st.Reach, c)
			if isBackEdge(b, s) {
				li := fr.loops[s]
				x.closeLoop(fr, li, b, &es)
				continue
			}
			fr.edge[[2]int{b.Index, s.Index}] = es
		}
	}
	fr.done[b.Index] = *st
}

func (x *Exec) bitInfo(v ssa.Value) BitInfo {
	it, ok := intTyOf(v.Type())
	if !ok {
		return BitInfo{64, 0}
	}
	bi := BitInfo{MaxBits: it.W, LowZero: 0}
	switch i := v.(type) {
	case *ssa.Const:
		if i.Value != nil {
			n, _ := new(big.Int).SetString(constant.ToInt(i.Value).ExactString(), 10)
			if n.Sign() >= 0 {
				bi.MaxBits = n.BitLen()
				if n.Sign() == 0 {
					bi.LowZero = 64
				} else {
					bi.LowZero = int(n.TrailingZeroBits())
				}
			}
		}
	case *ssa.Convert:
		if ft, ok := intTyOf(i.X.Type()); ok && !ft.Signed {
			in := x.bitInfo(i.X)
			if in.MaxBits < bi.MaxBits {
				bi.MaxBits = in.MaxBits
			}
			bi.LowZero = in.LowZero
		}
	case *ssa.BinOp:
		switch i.Op {
		case token.AND:
			a, b := x.bitInfo(i.X), x.bitInfo(i.Y)
			bi.MaxBits = min(a.MaxBits, b.MaxBits)
			bi.LowZero = max(a.LowZero, b.LowZero)
		case token.SHL:
			if c, ok := i.Y.(*ssa.Const); ok && c.Value != nil {
				if k, ok := constant.Int64Val(constant.ToInt(c.Value)); ok {
					bi.LowZero = int(k)
				}
			}
		case token.SHR:
			if c, ok := i.Y.(*ssa.Const); ok && c.Value != nil && !it.Signed {
				if k, ok := constant.Int64Val(constant.ToInt(c.Value)); ok {
					a := x.bitInfo(i.X)
					bi.MaxBits = max(0, a.MaxBits-int(k))
				}
			}
		case token.OR, token.XOR:
			a, b := x.bitInfo(i.X), x.bitInfo(i.Y)
			bi.MaxBits = max(a.MaxBits, b.MaxBits)
			bi.LowZero = min(a.LowZero, b.LowZero)
		}
	}
	return bi
}
