package main

// How spec functions reach the solver.
//
// Non-recursive ones are macros (define-fun).  Recursive ones are declared uninterpreted and
// given their defining equation as a quantified axiom whose trigger is the application itself:
// the solvers then unfold a definition only for applications that occur in the query (and those
// the unfolding creates, generation-bounded), instead of z3's recfun engine unfolding eagerly.
// Probe: a query with three lemma instances over pow2/bytelen went from >20 s (all solvers) to
// 0.05 s with this encoding.

import (
	"fmt"
	"strings"
)

func specDefinition(qname string, pnames, psorts []string, ret string, body *Term) string {
	recursive := termMentions(body, qname) || termCalls(body, qname)
	var ps []string
	for i := range pnames {
		ps = append(ps, fmt.Sprintf("(%s %s)", pnames[i], psorts[i]))
	}
	if !recursive || len(pnames) == 0 {
		return fmt.Sprintf("(define-fun %s (%s) %s %s)", qname, strings.Join(ps, " "), ret, body.String())
	}
	app := "(" + qname + " " + strings.Join(pnames, " ") + ")"
	ax := fmt.Sprintf("(declare-fun %s (%s) %s)\n(assert (forall (%s) (! (= %s %s) :pattern (%s))))",
		qname, strings.Join(psorts, " "), ret, strings.Join(ps, " "), app, body.String(), app)
	rec := fmt.Sprintf("(define-fun-rec %s (%s) %s %s)", qname, strings.Join(ps, " "), ret, body.String())
	return recBlock(ax, rec)
}

// recBlock packs both encodings; the solver race runs the axiom form and the define-fun-rec form.
func recBlock(ax, rec string) string {
	return ";;REC-BEGIN\n" + ax + "\n;;REC-ALT " + rec + "\n;;REC-END"
}

// recVariant rewrites a script to use the define-fun-rec alternatives.
func recVariant(script string) (string, bool) {
	if !strings.Contains(script, ";;REC-ALT ") {
		return "", false
	}
	var out []string
	skipping := false
	for _, l := range strings.Split(script, "\n") {
		switch {
		case l == ";;REC-BEGIN":
			skipping = true
		case strings.HasPrefix(l, ";;REC-ALT "):
			out = append(out, strings.TrimPrefix(l, ";;REC-ALT "))
		case l == ";;REC-END":
			skipping = false
		case !skipping:
			out = append(out, l)
		}
	}
	return strings.Join(out, "\n"), true
}

func termCalls(t *Term, op string) bool {
	if t.Op == op && len(t.Args) > 0 {
		return true
	}
	for _, a := range t.Args {
		if termCalls(a, op) {
			return true
		}
	}
	return false
}

var (
	pow2Def = recBlock("(declare-fun pow2 (Int) Int)\n(assert (forall ((n Int)) (! (= (pow2 n) (ite (<= n 0) 1 (* 2 (pow2 (- n 1))))) :pattern ((pow2 n)))))",
		"(define-fun-rec pow2 ((n Int)) Int (ite (<= n 0) 1 (* 2 (pow2 (- n 1)))))")
	bytelenDef = recBlock("(declare-fun bytelen (Int) Int)\n(assert (forall ((n Int)) (! (= (bytelen n) (ite (<= n 0) 0 (+ 1 (bytelen (div n 256))))) :pattern ((bytelen n)))))",
		"(define-fun-rec bytelen ((n Int)) Int (ite (<= n 0) 0 (+ 1 (bytelen (div n 256)))))")
	bevalDef = recBlock("(declare-fun beval ((Array Int Int) Int Int) Int)\n(assert (forall ((a (Array Int Int)) (p Int) (end Int)) (! (= (beval a p end) (ite (>= p end) 0 (+ (select a (- end 1)) (* 256 (beval a p (- end 1)))))) :pattern ((beval a p end)))))",
		"(define-fun-rec beval ((a (Array Int Int)) (p Int) (end Int)) Int (ite (>= p end) 0 (+ (select a (- end 1)) (* 256 (beval a p (- end 1))))))")
)
