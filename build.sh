#!/bin/sh
# Builds the govc verifier offline.
set -e
cd /verif/govc
export GOFLAGS=-mod=mod GOPROXY=off GOSUMDB=off GOTOOLCHAIN=local PATH=/opt/veriftools/go1.26.8/bin:$PATH
mkdir -p /verif/bin
go build -o /verif/bin/govc .
