//go:build verif

// Assumed contracts for golang.org/x/crypto/chacha20 (outside /repo; trusted).

package chacha20

//@ func NewUnauthenticatedCipher
//@   trusted
//@   ensures (len(key) == 32 && len(nonce) == 12) <==> err == nil
//@   ensures err == nil ==> result.0 != nil && fresh(result.0)
//@ func Cipher.XORKeyStream
//@   trusted
//@   requires len(dst) >= len(src)
//@   modifies s.*, dst
