//go:build verif

// Assumed contracts for golang.org/x/crypto/chacha20poly1305 (outside /repo; trusted).

package chacha20poly1305

//@ func New
//@   trusted
//@   ensures len(key) == 32 <==> err == nil
//@   ensures err == nil ==> result.0 != nil
