//go:build verif

// Assumed contracts for github.com/decred/dcrd/dcrec/secp256k1/v4 (outside /repo; trusted).

package secp256k1

//@ func ParsePubKey
//@   trusted
//@   pure
//@   ensures err == nil ==> result.0 != nil

//@ func PublicKey.SerializeUncompressed
//@   trusted
//@   ensures len(result) == 65 && cap(result) == 65 && fresh(result)

//@ func PublicKey.SerializeCompressed
//@   trusted
//@   ensures len(result) == 33 && cap(result) == 33 && fresh(result)

// Scalars modulo the group order: abstract (the field arithmetic is the
// library's).  SetByteSlice overwrites the receiver only; IsZero reads only.
// Documented behaviour of SetByteSlice (scalar and field element): at most 32
// bytes are read as a big-endian number, reduced modulo the group order N
// (resp. the field prime P), and the result says whether the number was >= N
// (resp. >= P).
// The value of a scalar: eight 32-bit limbs, least significant first.
//@ spec modnVal(s *ModNScalar) int = s.n[0] + 0x100000000 * s.n[1] + 0x10000000000000000 * s.n[2] + 0x1000000000000000000000000 * s.n[3] + 0x100000000000000000000000000000000 * s.n[4] + 0x10000000000000000000000000000000000000000 * s.n[5] + 0x1000000000000000000000000000000000000000000000000 * s.n[6] + 0x100000000000000000000000000000000000000000000000000000000 * s.n[7]
//@ func ModNScalar.SetByteSlice
//@   trusted
//@   modifies s.*
//@   ensures len(b) <= 32 ==> (result == (beval(content(b), off(b), off(b) + len(b)) >= 0xFFFFFFFFFFFFFFFFFFFFFFFFFFFFFFFEBAAEDCE6AF48A03BBFD25E8CD0364141))
//@   ensures len(b) <= 32 ==> modnVal(s) == beval(content(b), off(b), off(b) + len(b)) % 0xFFFFFFFFFFFFFFFFFFFFFFFFFFFFFFFEBAAEDCE6AF48A03BBFD25E8CD0364141

//@ func FieldVal.SetByteSlice
//@   trusted
//@   modifies f.*
//@   ensures len(b) <= 32 ==> (result == (beval(content(b), off(b), off(b) + len(b)) >= 0xFFFFFFFFFFFFFFFFFFFFFFFFFFFFFFFFFFFFFFFFFFFFFFFFFFFFFFFEFFFFFC2F))

//@ func ModNScalar.IsZero
//@   trusted
//@   pure
//@   ensures result == (modnVal(s) == 0)

//@ func ModNScalar.IsOverHalfOrder
//@   trusted
//@   pure
