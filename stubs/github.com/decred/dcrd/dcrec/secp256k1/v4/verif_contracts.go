//go:build verif

// Assumed contracts for github.com/decred/dcrd/dcrec/secp256k1/v4 (outside /repo; trusted).

package secp256k1

//@ func ParsePubKey
//@   trusted
//@   pure
//@   ensures err == nil ==> result.0 != nil

//@ func PublicKey.SerializeUncompressed
//@   trusted
//@   ensures len(result) == 65 && cap(result) == 65 && fresh(result)

//@ func PublicKey.SerializeCompressed
//@   trusted
//@   ensures len(result) == 33 && cap(result) == 33 && fresh(result)

// Scalars modulo the group order: abstract (the field arithmetic is the
// library's).  SetByteSlice overwrites the receiver only; IsZero reads only.
//@ func ModNScalar.SetByteSlice
//@   trusted
//@   modifies s.*

//@ func ModNScalar.IsZero
//@   trusted
//@   pure

//@ func ModNScalar.IsOverHalfOrder
//@   trusted
//@   pure
