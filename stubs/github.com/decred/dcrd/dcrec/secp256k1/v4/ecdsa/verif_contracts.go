//go:build verif

// Assumed contracts for github.com/decred/dcrd/dcrec/secp256k1/v4/ecdsa (outside /repo; trusted).

package ecdsa

//@ func NewSignature
//@   trusted
//@   ensures result != nil && fresh(result)
