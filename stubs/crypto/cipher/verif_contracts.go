//go:build verif

// Assumed contracts for crypto/cipher (standard library; trusted).  The only AEAD values in the analysed
// code come from chacha20poly1305.New, whose tag is 16 bytes; the sizes below are those of that AEAD.

package cipher

//@ iface AEAD.Seal
//@   requires len(nonce) == 12
//@   ensures len(result) == len(dst) + len(plaintext) + 16 && (cap(dst) == 0 ==> fresh(result))
//@ iface AEAD.Open
//@   requires len(nonce) == 12
//@   ensures err == nil ==> len(result.0) == len(dst) + len(ciphertext) - 16 && len(ciphertext) >= 16 && (cap(dst) == 0 ==> fresh(result.0))
